"""Builtins, list methods, library calls (numpy / concurrent.futures / pydantic) - the assumed contracts of DESIGN §6
in executable (symbolic) form.  Each entry is part of the trusted base and is audited against CPython (pyvc.audit)."""
from __future__ import annotations
import ast
import z3

from .types import parse_type, is_ref, ENUMS
from .state import V, NONE, State, Unsupported, PathEnd, PyRaise, static, is_static, _key
from .exprs import Iter, pybool, _mentions


def _int(z):
    return V(("int",), z)


class BuiltinMixin:
    # ------------------------------------------------------------------------------------------------- builtins
    def b_len(self, st, args, kw, node):
        v = self.deref(st, args[0], node)
        if v.t[0] in ("list", "nd"):
            return _int(st.seq_len(v))
        if v.t[0] == "tuple":
            return _int(z3.IntVal(len(v.items)))
        if is_static(v, "emptylist"):
            return _int(z3.IntVal(0))
        if is_static(v, "range"):
            lo, hi = v.items
            return _int(z3.If(hi > lo, hi - lo, 0))
        if v.t[0] == "str":
            return _int(z3.Length(v.z))
        raise Unsupported(f"len of {v.t}")

    def b_range(self, st, args, kw, node):
        if len(args) == 1:
            return static("range", (z3.IntVal(0), self.num(st, args[0], node).z))
        if len(args) == 2:
            return static("range", (self.num(st, args[0], node).z, self.num(st, args[1], node).z))
        raise Unsupported("range with step")

    def b_enumerate(self, st, args, kw, node):
        start = z3.IntVal(0)
        if len(args) > 1:
            start = args[1].z
        return static("enumerate", (args[0], start))

    def b_zip(self, st, args, kw, node):
        return static("zip", tuple(args))

    def b_abs(self, st, args, kw, node):
        v = self.num(st, args[0], node)
        if v.t[0] == "float" and self.ctx.float_mode == "fp":
            return V(("float",), z3.fpAbs(v.z))
        return V(v.t, z3.If(v.z >= 0, v.z, -v.z))

    def _quantify_gen(self, st, gen_v, node, universal=True):
        """all(...) / any(...) over a generator expression or a sequence of booleans"""
        if is_static(gen_v, "genexp"):
            gnode, frame = gen_v.items
            g = gnode.generators[0]
            if len(gnode.generators) > 1:
                inner = ast.Call(func=ast.Name(id="all" if universal else "any", ctx=ast.Load()),
                                 args=[ast.GeneratorExp(elt=gnode.elt, generators=gnode.generators[1:])], keywords=[])
                ast.copy_location(inner, gnode)
                ast.fix_missing_locations(inner)
                if self._skolem_here:
                    self.goal_pos.add(id(inner))
                gnode = ast.GeneratorExp(elt=inner, generators=[g])
            st.frames.append(dict(frame) if not self.spec_mode else dict(st.env))
            try:
                it = self.eval(st, g.iter)
                seq = self.as_iterable(st, it)
                n_len = seq.length(st)
                return self._quant_over(st, seq, n_len, g.target, gnode.elt, g.ifs, universal)
            finally:
                st.frames.pop()
        if gen_v.t[0] == "list" and gen_v.t[1][0] == "bool":
            i = z3.Int(self.ctx.fresh_name("qi"))
            e = st.seq_elems(gen_v)
            n = st.seq_len(gen_v)
            if universal:
                return V(("bool",), qforall([i], z3.Implies(z3.And(i >= 0, i < n), e[i]), patterns=[e[i]]))
            return V(("bool",), z3.Exists([i], z3.And(i >= 0, i < n, e[i])))
        if is_static(gen_v, "emptylist"):
            return pybool(universal)
        raise Unsupported(f"all/any over {gen_v.t}")

    def _quant_over(self, st, seq, n_len, target, elt, ifs, universal):
        if seq.static_len is not None and seq.static_len <= 6:
            acc = []
            for k in range(seq.static_len):
                st.frames.append(dict(st.env))
                try:
                    self.assign(st, target, seq.get(st, z3.IntVal(k)))
                    conds = [self.truth(st, self.eval(st, c)) for c in ifs]
                    b = self.truth(st, self.eval(st, elt))
                    acc.append(z3.Implies(z3.And(*conds), b) if conds and universal else
                               (z3.And(*(conds + [b])) if conds else b))
                finally:
                    st.frames.pop()
            if not acc:
                return pybool(universal)
            return V(("bool",), z3.And(*acc) if universal else z3.Or(*acc))
        i = z3.Int(self.ctx.fresh_name("qi"))
        # goal position (positive occurrence in a clause being proved): the bound index becomes an arbitrary constant
        skolem = universal and self._skolem_here
        self._skolem_here = False
        binder = {"var": i, "fresh": []}
        if not skolem:
            self.ctx.bound_stack.append(binder)
            cache_keys = set(self._axiom_cache)
            axs_before = set(st.axs)
        if skolem and self.cur is not None and "eager-inst" in self.cur.hints:
            self.instantiate_at(st, i)
        # evaluate the body with a symbolic index; the body of a quantified spec must be pure
        st.frames.append(dict(st.env))
        saved_mode = self.spec_mode
        self.spec_mode += 1          # no safety obligations inside the bound body; guards are stated by the clause
        mark = len(st.pc)
        try:
            st.pc.append(z3.And(i >= 0, i < n_len))
            self.assign(st, target, seq.get(st, i))
            conds = [self.truth(st, self.eval(st, c)) for c in ifs]
            b = self.truth(st, self.eval(st, elt))
        finally:
            self.spec_mode = saved_mode
            st.frames.pop()
            if not skolem:
                self.ctx.bound_stack.pop()
        added = st.pc[mark + 1:]
        del st.pc[mark:]
        base_rng = z3.And(i >= 0, i < n_len)
        rng = z3.And(i >= 0, i < n_len, *conds)
        if skolem:
            for f in added:
                st.pc.append(f if f.get_id() in self._axiom_ids else z3.Implies(base_rng, f))
            return V(("bool",), z3.Implies(rng, b))
        # instances created for this bound index are specific to it: forget them, their facts stay under the binder
        for k_ in set(self._axiom_cache) - cache_keys:
            del self._axiom_cache[k_]
        st.axs.intersection_update(axs_before)
        fresh = binder["fresh"]
        subs = []
        for c in fresh:
            f = z3.Function(c.decl().name() + "_q", z3.IntSort(), c.sort())
            subs.append((c, f(i)))
        fz = (lambda e: z3.substitute(e, *subs)) if subs else (lambda e: e)
        # facts introduced while evaluating the body (well-formedness of read references, axiom instances)
        side = []
        for f in added:
            if f.get_id() in self._axiom_ids and not _has_var_free(f, i) and not any(_has_var_free(f, c) for c in fresh):
                st.pc.append(f)
            else:
                side.append(fz(f))
        if side:
            st.assume(qforall([i], z3.Implies(base_rng, z3.And(*side))))
        b, rng = fz(b), fz(rng)
        pats = self._patterns(i, b, rng)
        if universal:
            body = z3.Implies(rng, b)
            return V(("bool",), qforall([i], body, patterns=pats) if pats else qforall([i], body))
        return V(("bool",), z3.Exists([i], z3.And(rng, b)))

    def instantiate_at(self, st, c):
        """Eager instantiation: every universally quantified assumption over one integer is instantiated at the Skolem
        constant of the goal (sound: an instance of an assumption).  The ground instances are visible to the
        quantifier-free path solver (store-chain resolution, branch pruning) and spare the SMT solver the matching."""
        n_before = len(st.pc)
        for f in list(st.pc[:n_before]):
            guard = None
            q = f
            if z3.is_app(f) and f.decl().kind() == z3.Z3_OP_IMPLIES and z3.is_quantifier(f.arg(1)):
                guard, q = f.arg(0), f.arg(1)
            if z3.is_quantifier(q) and q.is_forall() and q.num_vars() == 1 and q.var_sort(0) == z3.IntSort():
                inst = z3.substitute_vars(q.body(), c)
                st.assume(z3.Implies(guard, inst) if guard is not None else inst)

    def _patterns(self, i, *exprs):
        """select terms indexed exactly by the bound variable (or var+const) make good triggers"""
        found = {}
        seen = set()
        stack = list(exprs)
        while stack:
            e = stack.pop()
            if e.get_id() in seen or z3.is_quantifier(e):
                continue
            seen.add(e.get_id())
            if z3.is_app(e):
                if e.decl().kind() == z3.Z3_OP_SELECT and e.arg(1).get_id() == i.get_id() and not _has_var_free(e.arg(0), i):
                    found[e.get_id()] = e
                elif e.decl().kind() == z3.Z3_OP_UNINTERPRETED and e.num_args() > 0 and \
                        any(a.get_id() == i.get_id() for a in e.children()) and \
                        not any(_has_var_free(a, i) for a in e.children() if a.get_id() != i.get_id()):
                    found[e.get_id()] = e
                stack.extend(e.children())
        return [e for e in found.values() if _pattern_ok(e)][:3]

    def b_all(self, st, args, kw, node):
        self._skolem_here = id(node) in self.goal_pos
        try:
            return self._quantify_gen(st, args[0], node, True)
        finally:
            self._skolem_here = False

    def b_any(self, st, args, kw, node):
        return self._quantify_gen(st, args[0], node, False)

    def b_isinstance(self, st, args, kw, node):
        v, cls = args
        alts = list(cls.items) if cls.t[0] == "tuple" else [cls]
        res = None
        for a in alts:
            r = self._isinstance1(st, v, a, node)
            res = r if res is None else z3.Or(res, r)
        if v.none is not None:
            res = z3.And(z3.Not(v.none), res)
        return V(("bool",), res)

    def _isinstance1(self, st, v, a, node):
        if is_static(a, "builtin"):
            name = a.items
            kind = v.t[0]
            if kind == "none":
                return z3.BoolVal(False)
            table = {"list": ("list",), "int": ("int", "bool"), "float": ("float",), "bool": ("bool",),
                     "str": ("str",), "tuple": ("tuple",), "dict": ()}
            if name in table:
                if kind in ("val", "any"):
                    raise Unsupported("isinstance on an abstract value")
                if name in ("tuple", "list") and kind == "list" and v.z is not None and self.cur is not None:
                    # a parameter declared as a tuple of symbolic length (hint "tuple:<name>") is modelled as a sequence
                    for h in self.cur.hints:
                        if h.startswith("tuple:"):
                            pv = st.frames[0].get(h[6:])
                            if isinstance(pv, V) and pv.z is not None and pv.z.get_id() == v.z.get_id():
                                return z3.BoolVal(name == "tuple")
                return z3.BoolVal(kind in table[name])
        if is_static(a, "modattr"):
            if a.items == ("numpy", "ndarray"):
                if v.t[0] in ("val", "any"):
                    raise Unsupported("isinstance on an abstract value")
                return z3.BoolVal(v.t[0] == "nd")
        if is_static(a, "class"):
            if v.t[0] != "obj":
                return z3.BoolVal(False)
            vc = self.src.resolve_class(v.t[1], self.cur_mod.name)
            if vc is not None and any(c.qname == a.items.qname for c in self.src.mro(vc)):
                return z3.BoolVal(True)
            raise Unsupported("isinstance needing a dynamic class tag")
        raise Unsupported(f"isinstance against {a.t}")

    def b_int(self, st, args, kw, node):
        v = self.num(st, args[0], node)
        if v.t[0] == "int":
            return v
        if self.ctx.float_mode == "fp":
            # int(x): truncation toward zero; raises on NaN / inf
            self.safety(st, z3.Not(z3.Or(z3.fpIsNaN(v.z), z3.fpIsInf(v.z))), "int-of-nan-or-inf", node)
            r = z3.fpToReal(z3.fpRoundToIntegral(z3.RTZ(), v.z))
            return _int(z3.ToInt(r))
        r = v.z
        return _int(z3.If(r >= 0, z3.ToInt(r), -z3.ToInt(-r)))

    def b_float(self, st, args, kw, node):
        v = self.num(st, args[0], node)
        return st.to_float(v)

    def b_bool(self, st, args, kw, node):
        return V(("bool",), self.truth(st, args[0]))

    def b_str(self, st, args, kw, node):
        v = args[0]
        if v.t[0] == "str":
            return v
        if v.t[0] == "enum":
            # Enum.__str__ of this code base returns the value
            vals = ENUMS[v.t[1]]
            z = z3.StringVal(vals[-1])
            for i in range(len(vals) - 2, -1, -1):
                z = z3.If(v.z == i, z3.StringVal(vals[i]), z)
            return V(("str",), z)
        return V(("str",), self.ctx.fresh_z("str", z3.StringSort()))

    def b_list(self, st, args, kw, node):
        if not args:
            return static("emptylist", None)
        v = args[0]
        if v.t[0] in ("list", "nd"):
            return st.new_seq(v.t[1], "list", st.seq_len(v), st.seq_elems(v), "copy")
        if is_static(v, "range"):
            lo, hi = v.items
            arr = self.ctx.fresh_z("rng", z3.ArraySort(z3.IntSort(), z3.IntSort()))
            k = z3.Int(self.ctx.fresh_name("k"))
            n = z3.If(hi > lo, hi - lo, 0)
            st.assume(qforall([k], z3.Implies(z3.And(k >= 0, k < n), arr[k] == lo + k), patterns=[arr[k]]))
            return st.new_seq(("int",), "list", n, arr, "rng")
        if v.t[0] == "tuple":
            return self.make_list(st, v.items[0].t, list(v.items))
        raise Unsupported(f"list({v.t})")

    def b_tuple(self, st, args, kw, node):
        v = args[0]
        if v.t[0] == "tuple":
            return v
        raise Unsupported("tuple()")

    def b_min(self, st, args, kw, node):
        return self._minmax(st, args, node, True)

    def b_max(self, st, args, kw, node):
        return self._minmax(st, args, node, False)

    def _minmax(self, st, args, node, is_min):
        if len(args) < 2:
            raise Unsupported("min/max of a sequence")
        acc = self.num(st, args[0], node)
        for a in args[1:]:
            b = self.num(st, a, node)
            if acc.t[0] == "int" and b.t[0] == "int":
                acc = _int(z3.If((b.z < acc.z) if is_min else (b.z > acc.z), b.z, acc.z))
            else:
                raise Unsupported("float min/max")
        return acc

    def b_print(self, st, args, kw, node):
        return NONE

    def b_super(self, st, args, kw, node):
        if "self" not in st.env:
            raise Unsupported("super() outside a method")
        return static("super", (st.env["self"], self.cur_cls))

    def b_sum(self, st, args, kw, node):
        """sum of a list of ints = the prefix-sum functional at the list's length"""
        if len(args) == 1 and not kw and args[0].t[0] == "list" and args[0].t[1] == ("int",):
            f, _ = self.fsum_fn()
            self.fsum_axioms(st)
            return V(("int",), f(st.seq_elems(args[0]), st.seq_len(args[0])))
        if len(args) == 1 and is_static(args[0], "emptylist"):
            return V(("int",), z3.IntVal(0))
        raise Unsupported("sum()")

    def b_sorted(self, st, args, kw, node):
        raise Unsupported("sorted()")

    BUILTINS = {
        "len": b_len, "range": b_range, "enumerate": b_enumerate, "zip": b_zip, "abs": b_abs, "all": b_all,
        "any": b_any, "isinstance": b_isinstance, "int": b_int, "float": b_float, "bool": b_bool, "str": b_str,
        "list": b_list, "tuple": b_tuple, "min": b_min, "max": b_max, "print": b_print, "super": b_super,
        "sum": b_sum, "sorted": b_sorted, "dict": None, "set": None,
    }
    LAZY_BUILTINS = {}
    SPEC_FUNCS = {}

    # ------------------------------------------------------------------------------------------------- list methods
    def seq_method(self, st, recv: V, name, args, kw, node):
        et = recv.t[1]
        if name == "copy":
            return st.new_seq(et, recv.t[0], st.seq_len(recv), st.seq_elems(recv), "copy")
        if name == "tolist":
            return st.new_seq(et, "list", st.seq_len(recv), st.seq_elems(recv), "tolist")
        if name == "append":
            v = st.coerce(args[0], et)
            if v.t != et and not (et[0] == "obj" and v.t[0] == "obj"):
                if not (is_ref(et) and is_ref(v.t)):
                    raise Unsupported(f"append {v.t} to list[{et}]")
            n = st.seq_len(recv)
            st.seq_set_content(recv, n + 1, z3.Store(st.seq_elems(recv), n, v.z))
            return NONE
        if name == "extend":
            self.list_extend(st, recv, args[0])
            return NONE
        if name == "sort":
            self.sort_in_place(st, recv, kw, node)
            return NONE
        raise Unsupported(f"list method {name}")

    def keys_array(self, st, desc, body_fn, sort):
        """A named array K with K[i] == body_fn(i) for all i (definitional axiom, instantiated on K[i])."""
        ck = ("keys", desc)
        hit = self._axiom_cache.get(ck)
        if hit is None:
            K = self.ctx.fresh_z("keys", z3.ArraySort(z3.IntSort(), sort))
            nm = K.decl().name()
            i = z3.Int(nm + "_i")
            body = body_fn(i)
            pats = [K[i]]
            if z3.is_app(body) and body.decl().kind() in (z3.Z3_OP_SELECT, z3.Z3_OP_UNINTERPRETED) and _has_var_free(body, i) \
                    and _pattern_ok(body):
                pats.append(body)       # also fire from the defining term, so K[j] exists whenever cost[E[j]] does
            hit = (nm, K, qforall([i], K[i] == body, patterns=pats))
            self._axiom_cache[ck] = hit
        nm, K, ax = hit
        if nm not in st.axs:
            st.axs.add(nm)
            st.assume(ax)
            self._axiom_ids.add(ax.get_id())
        return K

    def sort_key_array(self, st, recv: V, keyfn, node):
        """Array index -> key (Real / Int) of the sequence's current content under the key function"""
        if keyfn is None:
            return st.seq_elems(recv), recv.t[1]
        # evaluate the key on a symbolic element (pure lambda over heap reads)
        probe = z3.Int("ki")
        st.frames.append(dict(st.env))
        mark = len(st.pc)
        try:
            elem = st.seq_get(recv, probe)
            self.spec_mode += 1
            try:
                kv = self.call_value(st, keyfn, [elem], {}, node)
            finally:
                self.spec_mode -= 1
        finally:
            st.frames.pop()
        del st.pc[mark:]
        if kv.t[0] not in ("int", "float"):
            raise Unsupported("sort key type")
        K = self.keys_array(st, kv.z.sexpr(), lambda i: z3.substitute(kv.z, (probe, i)), kv.z.sort())
        return K, kv.t

    def sort_in_place(self, st, recv: V, kw, node):
        """CPython list.sort contract: the new content is the stable sorting permutation `sigma` of the old content."""
        keyfn = kw.get("key")
        rev = kw.get("reverse")
        revz = self.truth(st, rev) if rev is not None else z3.BoolVal(False)
        n = st.seq_len(recv)
        old_elems = st.seq_elems(recv)
        keys, kt = self.sort_key_array(st, recv, keyfn, node)
        inst = self.sigma_instance(st, keys, n)
        new_elems = self.ctx.fresh_z("sorted", old_elems.sort())
        k = z3.Int(self.ctx.fresh_name("k"))
        st.assume(qforall([k], z3.Implies(z3.And(k >= 0, k < n),
                                            new_elems[k] == old_elems[z3.If(revz, inst["desc"][0](k), inst["asc"][0](k))]),
                            patterns=[new_elems[k]]))
        st.seq_set_content(recv, n, new_elems)

    def sigma_instance(self, st, keys, n):
        """The stable sorting permutations (ascending and descending) of `keys[0..n)`: global spec functions
        sigma_asc(K, n, k) / sigma_desc(K, n, k) with inverses; their defining axioms (bijection, order, stability)
        are instantiated once per (K, n) pair of terms."""
        ck = ("sigma", keys.sexpr(), n.sexpr())
        hit = self._axiom_cache.get(ck)
        if hit is None:
            nm = self.ctx.fresh_name("sigma")
            hit = {"name": nm, "axioms": []}
            inr = lambda x: z3.And(x >= 0, x < n)
            key = lambda x: z3.Select(keys, x)
            ks = _sortname(keys.sort().range())
            for d in ("asc", "desc"):
                F = z3.Function(f"sigma_{d}_{ks}", keys.sort(), z3.IntSort(), z3.IntSort(), z3.IntSort())
                G = z3.Function(f"sigma_{d}_inv_{ks}", keys.sort(), z3.IntSort(), z3.IntSort(), z3.IntSort())
                sig = (lambda F_: lambda x: F_(keys, n, x))(F)
                inv = (lambda G_: lambda x: G_(keys, n, x))(G)
                hit[d] = (sig, inv)
                k, k2, j = z3.Ints(f"{nm}_k {nm}_k2 {nm}_j")
                order = (key(sig(k)) <= key(sig(k2))) if d == "asc" else (key(sig(k)) >= key(sig(k2)))
                hit["axioms"] += [
                    qforall([k], z3.Implies(inr(k), z3.And(inr(sig(k)), inv(sig(k)) == k)), patterns=[sig(k)]),
                    qforall([j], z3.Implies(inr(j), z3.And(inr(inv(j)), sig(inv(j)) == j)),
                              patterns=[inv(j), key(j)]),
                    qforall([k, k2], z3.Implies(z3.And(inr(k), inr(k2), k < k2), order),
                              patterns=[z3.MultiPattern(sig(k), sig(k2))]),
                    qforall([k, k2], z3.Implies(z3.And(inr(k), inr(k2), k < k2, key(sig(k)) == key(sig(k2))),
                                                  sig(k) < sig(k2)),
                              patterns=[z3.MultiPattern(sig(k), sig(k2))]),
                ]
            self._axiom_cache[ck] = hit
        if hit["name"] not in st.axs:
            st.axs.add(hit["name"])
            for a in hit["axioms"]:
                st.assume(a)
                self._axiom_ids.add(a.get_id())
        self.ctx.tags.add("AX_stable_sort")
        return hit

    # ------------------------------------------------------------------------------------------------- dict (static keys)
    def dict_method(self, st, recv, name, args, kw, node):
        d = recv.items
        if name == "get":
            k = self.static_str(args[0])
            if k in d:
                return d[k]
            return args[1] if len(args) > 1 else NONE
        raise Unsupported(f"dict method {name}")

    # ------------------------------------------------------------------------------------------------- library
    def call_library(self, st, target, args, kw, node):
        mod, name = target
        fn = self.LIBRARY.get((mod, name))
        if fn is None:
            raise Unsupported(f"library call {mod}.{name} at {self.loc(node)}")
        return fn(self, st, args, kw, node)

    def external_method(self, st, recv, name, args, kw, node):
        fn = self.EXTERNAL_METHODS.get(name)
        if fn is None:
            raise Unsupported(f"method {name} of {recv.t} (no source, no contract) at {self.loc(node)}")
        return fn(self, st, recv, args, kw, node)

    def class_method(self, st, ci, name, args, kw, node):
        raise Unsupported(f"class attribute call {ci.name}.{name}")

    def super_call(self, st, recv, name, args, kw, node):
        raise Unsupported(f"super().{name}")

    def construct(self, st, ci, args, kw, node):
        raise Unsupported(f"constructor {ci.name}")

    LIBRARY = {}
    EXTERNAL_METHODS = {}


def _sortname(s):
    return str(s).replace("(", "_").replace(")", "").replace(" ", "").replace(",", "_")


def qforall(vs, body, patterns=None):
    """z3.ForAll with the given triggers, minus those z3 would reject (a trigger may not contain if-then-else or
    logical connectives); without any valid trigger z3 chooses its own"""
    good = []
    for p_ in patterns or []:
        try:
            terms = [p_.arg(i) for i in range(p_.num_args())] if z3.is_pattern(p_) else [p_]
        except Exception:
            terms = [p_]
        if all(_pattern_ok(t) for t in terms):
            good.append(p_)
    if good:
        return z3.ForAll(vs, body, patterns=good)
    return z3.ForAll(vs, body)


def _pattern_ok(e):
    bad = (z3.Z3_OP_ITE, z3.Z3_OP_AND, z3.Z3_OP_OR, z3.Z3_OP_NOT, z3.Z3_OP_IMPLIES, z3.Z3_OP_EQ, z3.Z3_OP_LE, z3.Z3_OP_LT,
           z3.Z3_OP_GE, z3.Z3_OP_GT)
    stack, seen = [e], set()
    while stack:
        x = stack.pop()
        if x.get_id() in seen:
            continue
        seen.add(x.get_id())
        if z3.is_quantifier(x):
            return False
        if z3.is_app(x):
            if x.decl().kind() in bad:
                return False
            stack.extend(x.children())
    return True


def _has_var_free(e, i):
    return _mentions(e, i)
