"""Concrete witness search and replay on the real code (DESIGN §2.4 steps 3-4).

Inputs are described by JSON-able recipes keyed by the contract's parameter types, so that a failing case can be
written to a replay file and rebuilt in a fresh process."""
from __future__ import annotations
import importlib, itertools, json, math, os, random, time

from .types import parse_type
from .runtime import monitor_call

COSTS = [0.0, 1.0, -1.0, 2.5, float("inf"), float("-inf")]


def _enc(x):
    if isinstance(x, float):
        if math.isinf(x):
            return "inf" if x > 0 else "-inf"
        if math.isnan(x):
            return "nan"
    return x


def _dec(x):
    if isinstance(x, str) and x in ("inf", "-inf", "nan"):
        return float(x)
    return x


def recipes(t, size_cap=4, rnd=None):
    """yield JSON-able recipes for a type descriptor (small scopes first)"""
    k = t[0]
    if k == "opt":
        yield None
        yield from recipes(t[1], size_cap, rnd)
    elif k == "enum":
        from .types import ENUMS
        yield from ENUMS[t[1]]
    elif k == "int":
        yield from [0, 1, 2, 3, 4, 5, -1]
    elif k == "bool":
        yield from [False, True]
    elif k == "float":
        yield from [_enc(c) for c in COSTS + [0.5, 1e-5, -2.0, 1e300, float("nan")]]
    elif k == "obj" and t[1] == "Agent":
        for c in COSTS[:4]:
            yield {"cost": _enc(c)}
    elif k == "list" and t[1] == ("obj", "Agent"):
        yield {"costs": []}
        # a few populations with NaN fitness (an objective that returned NaN): outside the symbolic domain, inside the
        # property's (the mean of such a generation is NaN)
        for costs, nanfit in (([1.0], [0]), ([0.0, 1.0], [0]), ([0.0, 1.0], [1]), ([1.0, 1.0], [0, 1]), ([2.5, 0.0, 1.0], [1])):
            yield {"costs": costs, "nanfit": nanfit}
        # costs that are distinct doubles but collapse in single precision (or differ only past the 7th digit)
        for costs in ([2e300, 1e300], [1e300, 2e300, 1.5e300], [5e-300, 1e-300, 0.0], [1.0000002, 1.0000001], [-1.00000003, -1.00000001, -1.00000002]):
            yield {"costs": costs}
        for n in range(1, size_cap + 1):
            alphabet = COSTS if n <= 3 else COSTS[:3]
            for costs in itertools.product(alphabet, repeat=n):
                yield {"costs": [_enc(c) for c in costs]}
    elif k == "list" and t[1] == ("list", ("obj", "Agent")):
        inner = [r for r in recipes(("list", ("obj", "Agent")), 2) if 1 <= len(r["costs"]) <= 2 and not r.get("nanfit")][:30]
        for n in range(0, 3):
            for combo in itertools.product(inner[:8], repeat=n):
                yield {"groups": list(combo)}
    elif k == "list" and t[1][0] in ("int", "float"):
        vals = [0, 1, 2, -1] if t[1][0] == "int" else [0.0, 1.0, -1.0, 2.5]
        for n in range(0, size_cap + 1):
            for xs in itertools.product(vals[:3], repeat=n):
                yield list(xs)
    else:
        raise NotImplementedError(f"no recipe generator for {t}")


def build(t, r):
    from pyvolutionary.models import Agent
    from pyvolutionary.enums import TaskType, ModeSolver, ExportType
    k = t[0]
    if k == "opt":
        return None if r is None else build(t[1], r)
    if k == "enum":
        return {"TaskType": TaskType, "ModeSolver": ModeSolver, "ExportType": ExportType}[t[1]](r)
    if k in ("int", "bool"):
        return r
    if k == "float":
        return float(_dec(r))
    if k == "obj" and t[1] == "Agent":
        return Agent(position=[0.0], cost=_dec(r["cost"]), fitness=0.5)
    if k == "list" and t[1] == ("obj", "Agent"):
        return [Agent(position=[float(i)], cost=_dec(c), fitness=float("nan") if i in r.get("nanfit", ()) else 1.0 / (2 + i))
                for i, c in enumerate(r["costs"])]
    if k == "list" and t[1] == ("list", ("obj", "Agent")):
        return [build(("list", ("obj", "Agent")), g) for g in r["groups"]]
    if k == "list":
        return [_dec(x) for x in r]
    raise NotImplementedError(f"cannot build {t}")


def resolve(qname):
    """the real function object (and its module globals) for a qualified name"""
    parts = qname.split(".")
    for cut in range(len(parts) - 1, 0, -1):
        try:
            mod = importlib.import_module(".".join(parts[:cut]))
        except ImportError:
            continue
        obj = mod
        for p in parts[cut:]:
            obj = getattr(obj, p)
        return obj, vars(mod)
    raise ImportError(qname)


def _bind_method(contract, func):
    """methods need a receiver: a bare probe instance is enough for the methods whose contract does not read the state of
    `self`; the others have no small-scope generator (the check then reports the failed obligation without an input)"""
    import inspect
    try:
        params = list(inspect.signature(func).parameters)
    except (TypeError, ValueError):
        return func
    if not params or params[0] != "self":
        return func
    clauses = " ".join(str(c_[1] if isinstance(c_, tuple) else c_) for c_ in list(contract.requires) + list(contract.ensures))
    if "self." in clauses or "self)" in clauses or "self," in clauses:
        raise NotImplementedError("the contract reads the state of self")
    from pyvolutionary.abstract import OptimizationAbstract
    owner = contract.qname.rsplit(".", 2)[-2]
    if owner != "OptimizationAbstract":
        raise NotImplementedError("no probe receiver for " + owner)

    class _Probe(OptimizationAbstract):
        def optimization_step(self):
            pass

        def set_config_parameters(self, parameters):
            pass
    return getattr(_Probe(), contract.qname.rsplit(".", 1)[-1])


def search(contract, budget_s=6.0, max_cases=4000, seed=0):
    """enumerate small inputs of the contract's parameter types, run the real function under the run-time contract;
    returns (witness dict | None, stats)"""
    try:
        func, g = resolve(contract.qname)
        func = _bind_method(contract, func)
    except Exception as ex:  # noqa
        return None, {"error": f"cannot import / bind {contract.qname}: {ex}", "cases": 0}
    names = list(contract.params)
    types = [parse_type(contract.params[n]) for n in names]
    try:
        pools = [list(itertools.islice(recipes(t), 400)) for t in types]
    except NotImplementedError as ex:
        return None, {"error": str(ex), "cases": 0}
    rnd = random.Random(seed)
    # order: small lists first, then mix; product can be large -> sample deterministically
    total = 1
    for p in pools:
        total *= max(1, len(p))
    t0 = time.time()
    cases = ran = 0

    def combos():
        if total <= max_cases:
            yield from itertools.product(*pools)
        else:
            seen = set()
            # small scopes first
            small = [p[:12] for p in pools]
            for c in itertools.product(*small):
                yield c
            while True:
                c = tuple(rnd.randrange(len(p)) for p in pools)
                if c in seen:
                    continue
                seen.add(c)
                yield tuple(pools[i][j] for i, j in enumerate(c))

    for combo in combos():
        if cases >= max_cases or time.time() - t0 > budget_s:
            break
        cases += 1
        try:
            args = {n: build(t, r) for n, t, r in zip(names, types, combo)}
        except Exception:
            continue
        status, det = monitor_call(contract, func, args, g)
        if status == "pre-false":
            continue
        ran += 1
        if status == "violation":
            return ({"function": contract.qname, "recipe": dict(zip(names, combo)),
                     "param_types": dict(contract.params), "failed": det}, {"cases": cases, "ran": ran})
    return None, {"cases": cases, "ran": ran}


def replay(w):
    """re-run a recorded witness on the real code of the current tree; returns (still_fails, details)"""
    import contracts  # noqa: F401  (registers the sidecar contracts)
    from .contract import REG
    c = REG.get(w["function"])
    func, g = resolve(w["function"])
    func = _bind_method(c, func)
    names = list(w["recipe"])
    args = {n: build(parse_type(w["param_types"][n]), w["recipe"][n]) for n in names}
    status, det = monitor_call(c, func, args, g)
    return status == "violation", det
