"""Verify one function under contract in a fresh process (deterministic formula text, no state shared between functions)
and write its obligation records as JSON: python -m pyvc.worker <qname> <tier> <out.json> [procs]"""
from __future__ import annotations
import json, os, sys

VERIF = os.path.dirname(os.path.dirname(os.path.abspath(__file__)))
sys.path.insert(0, os.environ.get("PYVC_REPO", "/repo"))
sys.path.insert(0, VERIF)


def main(q, tier, out, procs):
    from pyvc.engine import Engine
    from pyvc import specfuncs, library  # noqa: F401
    import contracts  # noqa: F401
    from pyvc.solve import discharge, retry_unknown
    eng = Engine()
    timeout = 15000 if tier == "quick" else 60000
    try:
        eng.verify(q)
    except Exception as ex:  # noqa
        # The generator met code it cannot process (a construct its tables do not know makes an internal lookup fail): the
        # function's obligations are undecided, exactly as for a construct it knows to be outside the subset.
        import traceback
        where = traceback.extract_tb(ex.__traceback__)[-1]
        eng.obligations.clear()
        eng.undecided.append((q, f"unsupported[-]: the generator cannot process this body ({type(ex).__name__}: {str(ex)[:80]} at "
                                 f"{where.filename.rsplit('/', 1)[-1]}:{where.lineno})"))
    res = discharge(eng.obligations, timeout, procs=procs, cross_check=(tier == "thorough"))
    retry_unknown(eng.obligations, res, timeout * 4)
    recs = []
    for k, ob in eng.obligations.items():
        r = res[k]
        recs.append(dict(name=ob.name, kind=ob.kind, case=ob.case, expect_sat=ob.expect_sat, qname=ob.qname,
                         status=r["status"], time=r["time"], backend=r["backend"], reason=r.get("reason", ""),
                         cvc5=r.get("cvc5"), clause=ob.clause, loc=ob.loc, tags=list(ob.tags)))
    json.dump({"records": recs, "undecided": [list(u) for u in eng.undecided]}, open(out, "w"))


if __name__ == "__main__":
    main(sys.argv[1], sys.argv[2], sys.argv[3], int(sys.argv[4]) if len(sys.argv) > 4 else 4)
