"""Claim table: level, technique and trusted base per claimed property (source of MANIFEST.json)."""

TECH_VC = ("contract-based deductive verification: verification conditions generated from the real AST of /repo on every run "
           "(pyvc symbolic executor, sidecar contracts under /verif/contracts), discharged by z3 with cvc5 on z3's unknowns")
TECH_EFF = ("frame / reads / provenance clauses of the hook contracts checked on every store, call and constructor site of the "
            "84 optimizer classes (pyvc/eff.py)")
TECH_BND = "run-time form of the same contracts on an enumerated family of real runs (bounded stand-in, never counted as proved)"
NOTE_VC = ("Trusted: the pyvc encoder, z3/cvc5, the assumed contracts of dependencies in pyvc/library.py (CPython list.sort / "
           "slices / copy, numpy argsort / clip / average / dot / RNG, pydantic constructors and model_copy, concurrent.futures); "
           "float + - * over the reals where tagged A_real; costs not NaN. ")
NOTE_HOOKS = ("optimize() is proved against the abstract hook contracts; that each of the 84 classes refines them is the EFF part "
              "(syntactic rule table, trusted) plus, for what numerics decide (shape / NaN-freedom of candidates, sizes of "
              "hand-rolled populations), the bounded campaign. ")


def C(text, note, technique, category="proof"):
    return dict(text=text, note=note, technique=technique, category=category)


CLAIMS = {
    "C01": C("Proved for all inputs: _init_agent / Task.initial_solution / correct_solution return positions in the search space "
             "(against the abstract Variable contract, refined by the Continuous / Discrete VCs); _generate_agents, _init_population, "
             "the result constructors and optimize()'s loop invariant carry it to every recorded generation and to best_solution. "
             "EFF: every agent of every optimizer is built through _init_agent (PROV), never edited afterwards (FRAME-view), "
             "populations are own lists (POP-own). Bounded: candidates passed to _init_agent are NaN-free and long enough "
             "(84 optimizers x 6 task kinds x min/max x seeds).",
             NOTE_VC + NOTE_HOOKS, TECH_VC + "; " + TECH_EFF + "; " + TECH_BND),
    "C02": C("Proved: _fcn, _init_agent (cost = sgn * F(position), fitness = Fit(user cost)), calculate_fitness (bit-precise fp64), "
             "Task.solve (objective evaluated at the position itself: members of the space are fixed points of correct), the two result "
             "constructors (sign restored exactly once, positions and fitness kept) and optimize()'s invariant (every recorded agent "
             "Reported). Both objective kinds: for a list-valued objective every value keeps / flips its sign exactly once and the cost is "
             "np.dot(values, weights) of the weights the task was built with (ghost W0; assumed of np.dot: a function of the elements, "
             "dot(-a, w) = -dot(a, w), dot(a, w) = dot(w, a)). "
             "Decoding: Task.transform_solution decodes exactly the coordinates of the reported position, variable by variable (see C14). "
             "EFF: PROV, FRAME-view, CALLS (single evaluation chain). Bounded: recomputation of every reported cost on real runs.",
             NOTE_VC + NOTE_HOOKS + "The user's objective is an uninterpreted deterministic function F.", TECH_VC + "; " + TECH_EFF + "; " + TECH_BND),
    "C03": C("Proved for all populations, ties, both directions and any pool order: special_agents / best_agents / sort_by_cost return the "
             "optimum of the live population, optimize() recomputes it after the last step from the population it has just recorded, "
             "and the result constructors negate costs order-reversingly: best_solution has the position and cost of a member of the last "
             "generation and no member is strictly better in the task's direction.",
             NOTE_VC + NOTE_HOOKS, TECH_VC + "; " + TECH_BND),
    "C04": C("Proved for all rate histories, all max_cycles >= 1, patience >= 1 or None, min_delta or None (None = the model default, "
             "1 and 1e-4), fitness_error: __should_stop__ returns exactly the "
             "predicate Stop of the statement (both directions; the code's window over first differences against 0 is proved equivalent), "
             "__error_check__ appends |1 - mean fitness| and the difference, optimize()'s loop (invariant: no earlier stop, one generation "
             "and one rate per cycle, rate k = |1 - mean fitness of recorded generation k| for every k, cycle <= max_cycles; variant "
             "max_cycles - cycle) stops at the first cycle where Stop holds and returns exactly those rates. "
             "EFF FRAME-book: no optimizer touches the cycle counter or the rate lists. Bounded (redundant with the proof, kept as a "
             "cross-check of the encoding): rates and stop rule recomputed on real runs with three stopping configurations per optimizer.",
             NOTE_VC + NOTE_HOOKS + "Termination of optimization_step itself is assumed.", TECH_VC + "; " + TECH_EFF + "; " + TECH_BND),
    "C05": C("Proved: the abstract objective_function carries the precondition Space(task, x); its only call site (Task.solve) discharges it "
             "from correct_solution's postcondition; EFF CALLS shows objective_function / solve / _fcn have no other caller in the package "
             "and every _init_agent override reaches the base exactly once. Bounded: NaN-freedom and length of the candidates the 84 "
             "optimizers pass to _init_agent (the objective itself checks its argument on real runs, also inside worker processes).",
             NOTE_VC + NOTE_HOOKS, TECH_VC + "; " + TECH_EFF + "; " + TECH_BND),
    "C06": C("Proved: optimize() raises ValueError iff no configuration / workers <= 0 / unknown mode / objective-weight count mismatch, and "
             "before any cycle; every kernel function on the optimize path is free of implicit exceptions (index, unpack, None, divisor) under "
             "its precondition, in all three modes, including the element-wise sign flip of list objectives; validators raise iff the "
             "documented condition; a rejected optimize() call leaves the worker count positive (the object invariant the next call needs) - "
             "incl. Task.validate_objective_weights (raises iff some weight is negative; numpy's element-wise comparison "
             "and np.all assumed) and the validate_bounds / constructors of the composite variables (length mismatch, inverted or equal bounds, "
             "n_vars <= 0). Bounded (labelled): exceptions inside the 84 optimizer bodies, keyed by (optimizer, exception, "
             "function) on continuous tasks and by (optimizer, encoding) on integer-coded tasks against the committed expectation.",
             NOTE_VC + NOTE_HOOKS, TECH_VC + "; " + TECH_BND),
    "C07": C("Proved: on every path of optimize() the numpy global RNG is seeded with task.seed before any draw (ghost flag), for every "
             "integer seed in numpy's range (Task.seed is an int field); EFF READS-rng: the whole call graph (84 classes, helpers, models) "
             "draws only from numpy's global legacy RNG - no stdlib random, private generators, time, uuid, id/hash, and never consumes a "
             "set in iteration order unless its elements are provably ints (PYTHONHASHSEED). With INIT / CTOR "
             "(equal initial object state) the run is a function of (config, task, seed). Bounded: double runs of every optimizer with "
             "a pre-perturbed global stream; the same seeded run in fresh interpreter processes with different PYTHONHASHSEED on a "
             "task whose string labels are decoded by transform_solution.",
             NOTE_VC + "Meta-theorem (by hand): equal object state + equal RNG stream => equal run, for the deterministic fragment of python/numpy. ",
             TECH_VC + "; " + TECH_EFF + "; " + TECH_BND),
    "C08": C("Proved: optimize()'s prologue re-establishes the fresh book-keeping state (loop invariant initialisation needs it); EFF INIT: "
             "every instance field an optimizer writes during a run is re-bound unconditionally in a per-run hook before any read; "
             "FRAME-book; FRAME-cfg (a run that writes into its configuration would hand state to the next run). Bounded: second optimize() on a used instance equals a fresh instance, all 84 optimizers.",
             NOTE_VC + NOTE_HOOKS, TECH_VC + "; " + TECH_EFF + "; " + TECH_BND),
    "C09": C("Proved (kernel): optimize() leaves every field of every object that existed at entry and every list that existed at entry "
             "unchanged, except the optimizer's own run state - on normal and on ValueError exits (frame postcondition and loop invariant, "
             "against the hook contracts). EFF FRAME-cfg on every store site of the 84 optimizers: no assignment, augmented assignment, subscript store "
             "or mutating call whose target is rooted at self._config / self._task / task, directly or through a local alias of a mutable "
             "sub-object (scalar config fields are immutable). Bounded: model_dump() of configuration and task before / after every run.",
             NOTE_VC + "Trusted: the EFF rule table (syntactic, intra-procedural alias tracking); mutation by the user's objective is out of scope.",
             TECH_VC + "; " + TECH_EFF + "; " + TECH_BND),
    "C10": C("Proved: length clauses of _generate_agents (serial and pooled: a permutation keeps the length), _init_population, sort_and_trim, "
             "_extend / _replace_and_trim, _greedy_select_population, get_pool_results, the Population constructor and optimize()'s invariant "
             "(1 <= len <= population_size for every generation; = population_size for fixed-size classes, as an abstract predicate). "
             "EFF LEN: 65 classes whose every update of the population is length-preserving by form (unfiltered comprehension over the "
             "population, greedy / elitist kernel helper, in-place replacement, re-sort; committed list, a class dropping out is a violation). "
             "Bounded: that each of the 81 fixed-size optimizers keeps exactly population_size agents (sizes 1x..3x, +1..+3, re-configuration, all modes).",
             NOTE_VC + NOTE_HOOKS, TECH_VC + "; " + TECH_EFF + "; " + TECH_BND),
    "C11": C("Proved for an arbitrary bijection standing for the completion order: get_pool_results returns every future's value exactly once; "
             "pooled _generate_agents / _greedy_select_population give a permutation of the serial outcome (none lost, none duplicated), so the "
             "permutation-invariant guarantees transfer; RNG ownership: a random-drawing callable submitted to a process pool seeds its own "
             "stream (ghost check); EFF POOL-pure: the callables a pool worker runs (the base class's and every override) write nothing of the "
             "optimizer. Not applicable part: real interleavings and 'pairwise distinct' (probabilistic). Bounded: thread / process runs "
             "(2 to 16 workers, more workers than agents, ties) with the C01-C03, C05, C10 monitors and duplicate counts, also as the first "
             "use of multiprocessing in a fresh interpreter.",
             NOTE_VC + "concurrent.futures axioms; thread-safety of numpy's global RNG assumed. ", TECH_VC + "; " + TECH_EFF + "; " + TECH_BND),
    "C12": C("Proved: _fcn flips the sign exactly once on the way in, the result constructors exactly once on the way out (costs exact negatives), "
             "helpers rank internal costs in the default direction; EFF READS-dir: no optimizer other than the committed exclusions (AntLion "
             "reads fitness; ImperialistCompetitive only to fill fitness=) reads Agent.fitness / Task.minmax / TaskType; with C07's "
             "determinism both runs follow the same trajectory. Bounded: max f versus min -f on every non-excluded optimizer.",
             NOTE_VC + "Relational claim reduced to per-function reads clauses plus the determinism meta-theorem. ", TECH_VC + "; " + TECH_EFF + "; " + TECH_BND),
    "C13": C("Proved (fp64, bit-precise, all doubles incl. +-inf and NaN): ContinuousVariable.correct = clip, maps non-NaN into [lb, ub], leaves "
             "members unchanged, is idempotent; randomize within bounds; validators raise iff bounds inverted / equal, n_vars <= 0, patience < 1. "
             "Proved (reals/ints): DiscreteVariable.correct / get_bounds / randomize. Proved: the four multi-variables (continuous, discrete, "
             "multi-objective, binary) correct child-wise - one result per child, each by that child's own rule (abstract Variable contract: "
             "into the domain, members unchanged), for list and ndarray arguments - and get() returns the children; their randomize draws one "
             "member per child, in order (child-wise against the abstract randomize contract) and their decode decodes entry r with child r; "
             "validate_bounds of the two continuous composites raises iff the lists differ in length or some upper <= lower; the constructors "
             "of ContinuousMultiVariable / MultiObjectiveVariable / BinaryVariable reject exactly those definitions (n_vars <= 0) and "
             "otherwise build one fresh child per coordinate with that coordinate's bounds (two choices per bit). Bounded (law campaign, "
             "1927 law instances): permutation, label encoder, DiscreteMultiVariable construction, fp corner cases of the discrete clip, numpy scalars.",
             NOTE_VC + "Permutation / LabelEncoder and the constructor of DiscreteMultiVariable are outside the VC subset (numpy idioms, "
             "lists of lists): bounded only. np.any / np.array on a list of booleans assumed (exists / same elements).", TECH_VC + "; " + TECH_BND),
    "C14": C("Proved: Task.__init__ sets space_dimension to the sum of the variables' sizes and keeps the variables in order; "
             "get_variables returns exactly one flattened variable per coordinate, in declaration order (flat(task, i) = the child that owns "
             "coordinate i, by prefix sums of the sizes); get_bounds returns one lower / upper entry per coordinate, each the bound its "
             "declared variable gives to that coordinate; empty_solution has one in-domain, non-NaN coordinate per dimension; "
             "correct_solution has one coordinate per dimension and acts coordinate-wise with the owning flattened variable; "
             "initial_solution, solve. All against the abstract Variable contract (size / has_children / get / randomize / get_bounds / "
             "correct). The seven classes' size / has_children / get are verified against that abstract contract under their object "
             "invariants; randomize / decode of the four composites and get_bounds of the two continuous composites likewise (the declared "
             "lists themselves, lower first). transform_solution returns one entry per declared variable, in declaration order, keyed by "
             "its name: a leaf's entry is Dec(variable, x[off]) of its own coordinate, a composite's entry is a list of its size whose "
             "r-th element is Dec(child r, x[off + r]) (loop invariant counter = off(task, j); the dict is represented by its insertion log; "
             "a scalar passed to a composite's decode - or a slice to a leaf's - fails a precondition). Bounded (law campaign over 30 "
             "variable mixes incl. size-1 multi-variables, single permutations and several tasks of one layout in one process): the "
             "ghost part of the invariants (kids / vsize / child are what the constructors built), get_bounds of DiscreteMultiVariable, "
             "lower <= upper on real tasks, transform_solution on real tasks. get_bounds of BinaryVariable ([0, 2 - eps] per bit) and of "
             "PermutationVariable ([0, n - 1e-4] per item) are proved: one pair per coordinate, lower strictly below upper (np.zeros / "
             "np.ones / scalar-array arithmetic assumed element-wise, real arithmetic).",
             NOTE_VC + "Object invariant of Task / Variable (task_wf, var_wf: the variable list and the children are the ones built by the "
             "constructors) is assumed at entry of the Task methods: the constructor part about space_dimension is proved, the package "
             "never writes these fields (EFF FRAME-cfg). Prefix-sum / segment lemmas are axioms (proved in lemmas/L2.lean). "
             "transform_solution's dict is modelled by its insertion log (keys and values in insertion order; the dict is a function of the log, "
             "and equals it item for item when the variable names are pairwise distinct); lists stored as dict values are boxed into the "
             "abstract value sort. The abstract Variable.decode contract (Dec(var, value); composites child-wise) is assumed for the leaves "
             "with a table look-up (Discrete / Permutation: law campaign).", TECH_VC + "; " + TECH_BND),
    "C15": C("Proved: optimize()'s loop invariant keeps every recorded generation (history-ok, history-owns-its-lists): the Population constructor "
             "owns a fresh list, hooks may only rebind the population; EFF FRAME-view / FRAME-book / POP-own on all 84 classes (no view field "
             "of an existing agent is ever written, no position list mutated through an alias). Proved: agent_trend / agent_position / "
             "best_agent_* return the idx-th agent of each generation in the result's direction (sigma spec). Bounded: deep snapshots.",
             NOTE_VC + NOTE_HOOKS, TECH_VC + "; " + TECH_EFF + "; " + TECH_BND),
    "C16": C("Every selection helper (sort_by_cost, sort_and_trim, best/worst_agent(s), *_indexes, special_agents, greedy selection of agents "
             "and populations, extend / replace and trim) is verified for all populations, all n, both directions, ties and infinite costs: "
             "result = the prescribed slice of the stable cost order of the caller's list (membership at distinct indices, order, optimality, "
             "caller's list and objects untouched). Unbounded (symbolic list length). The one optimizer that overrides the greedy selection "
             "with the same rule (BeeColony) is held to the same contract.",
             NOTE_VC + "Lemma L1 (sorted arrangements of one multiset coincide) for the *_indexes cost clause.", TECH_VC),
    "C17": C("Proved: _greedy_select_agent returns the challenger only if strictly cheaper, else a copy of the incumbent; _greedy_select_population, "
             "_extend_and_trim_population, sort_and_trim keep the cheapest; the two overrides of the greedy selection in optimizer classes "
             "(BeeColony, Bat) are verified to stay elitist. EFF ELITE: 56 classes whose every replacement of the population "
             "goes through these forms (committed list; a class dropping out is a violation); EFF INIT (a run never starts from a previous "
             "run's state). Bounded: best cost monotone on real runs, also at populations well below the documented scale.",
             NOTE_VC + "The step from 'every replacement is a greedy form' to 'min cost never increases' is argued per form, not re-derived "
             "by the solver for each class (DESIGN §7).", TECH_VC + "; " + TECH_EFF + "; " + TECH_BND),
    "C18": C("EFF CTOR on all 84 classes: constructible without arguments, the constructor stores the configuration and never dereferences it, "
             "set_config_parameters is exactly self._config = <its config class>(**parameters); INIT (nothing cached from the configuration at "
             "construction survives). Proved: optimize() raises ValueError when the configuration is None. Bounded: K() / optimize-without-"
             "config / set_config_parameters equivalence on every optimizer.",
             NOTE_VC + NOTE_HOOKS, TECH_VC + "; " + TECH_EFF + "; " + TECH_BND),
}

CLAIMS["C19"] = C(
    "EFF CTOR on all 84 classes (set_config_parameters builds exactly <config class>(**parameters): a grid point is evaluated with its own "
    "parameters and nothing left over from the previous point). Otherwise bounded: the run-time form of the contract on the family the property names - ParameterGrid "
    "laws (iteration = union of key-sorted products, len and indexing agree, IndexError beyond) exhaustively for 1..3 keys x 1..3 values, "
    "dict and list of dicts; HyperTuner.execute with a scripted optimizer whose calls are logged: every grid point exactly once per trial "
    "with exactly its parameters, best_parameters a grid point with the optimal mean in the task's direction (ties, min and max), "
    "best_score that mean, resolve() runs with those parameters.",
    "ParameterGrid is generator / itertools code and HyperTuner.execute is pandas + process pools: outside the Python subset of the VC "
    "generator, so contract-based deduction does not reach it; the bounded stand-in the brief allows is used and labelled as such.",
    TECH_EFF + "; " + TECH_BND, category="exploration")
CLAIMS["C20"] = C(
    "Proved for all n, m >= 1 and all lengths of `modes`: Multitask.__check_input__ expands `modes` to one mode per (algorithm, task) pair "
    "with the documented precedence (one value; per algorithm; per task; per pair, algorithm-major), raises ValueError iff the length is "
    "none of 1, n, m, n*m, keeps None; __get_mode__ returns the designated mode of the pair (serial when no modes were given) and raises "
    "ValueError iff it is not a solver mode. Bounded: n, m in 1..3 x the four documented shapes of modes plus None x 1..2 trials x worker "
    "counts with scripted optimizers and distinct task classes: every (algorithm, task) pair runs exactly n_trials times in its designated "
    "mode with the given worker count, one table per algorithm (column per task, row per trial), unknown modes rejected at construction, "
    "export writes one file per algorithm under <save_path>/<algorithm name>/ in the three formats.",
    NOTE_VC + "execute / __parallelize__ / export_results are pandas / process-pool / filesystem code outside the VC subset: bounded "
    "stand-in, labelled as such; __check_modes__ (itertools.chain) likewise.",
    TECH_VC + "; " + TECH_BND, category="exploration")

NOT_APPLICABLE = {}
