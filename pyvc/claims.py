"""Claim table: level, technique and trusted base per claimed property (source of MANIFEST.json)."""

CLAIMS = {
    "C16": dict(
        technique="contract-based deductive verification: VCs generated from the real AST of helpers.py / abstract.py against sidecar contracts over the stable-sort spec function sigma, discharged by z3 (cvc5 on unknown); failing obligations replayed on the real code",
        text="Every selection helper (sort_by_cost, sort_and_trim, best/worst_agent(s), *_indexes, special_agents, greedy selection) is "
             "verified for all populations, all n, both directions, ties and infinite costs: result = the prescribed slice of the stable "
             "cost order of the caller's list (membership, distinct indices, order, optimality, caller's list and objects untouched) as "
             "postconditions discharged function by function; callers use callee contracts only. Unbounded (symbolic list length).",
        note="Trusted: the pyvc encoder, z3/cvc5, assumed contracts for CPython list.sort/copy/slices, numpy argsort, pydantic model_copy; "
             "costs not NaN; lemma L1 (sorted arrangements coincide) used for the *_indexes cost clause.",
    ),
}

NOT_APPLICABLE = {}
