"""Which components decide which property (DESIGN §7, Appendix D)."""
from __future__ import annotations

LEVEL = {}


def compose(R, pid, tier, seed, bnd):
    from .props import _vc_component
    _vc_component(R, pid, tier)
