"""Which components decide which property (DESIGN §7, Appendix D)."""
from __future__ import annotations
import json, os

from .report import VERIF

LEVEL = {"C19": "exploration", "C20": "exploration"}

EFF_FAMILIES = {
    # INIT: every call starts from the fresh per-run state that the other obligations of the hooks take for granted
    "C01": ["PROV", "FRAME-view", "POP-own", "FRAME-kernel", "INIT"],
    "C14": ["FRAME-kernel"],
    "C02": ["PROV", "FRAME-view", "CALLS", "INIT", "FRAME-kernel"],
    "C04": ["FRAME-book"],
    "C05": ["CALLS", "PROV", "FRAME-kernel", "INIT"],
    "C07": ["READS-rng", "INIT"],          # equal seed => equal run also on a used instance (histories)
    "C08": ["INIT", "FRAME-book", "FRAME-cfg"],   # a run that writes into its configuration hands state to the next run
    "C19": ["CTOR"],                               # a grid point is evaluated with exactly its parameters: set_config_parameters is C(**d)
    "C09": ["FRAME-cfg"],
    "C10": ["POP-own", "LEN"],
    "C11": ["POOL-pure"],
    "C12": ["READS-dir", "READS-rng"],
    "C15": ["FRAME-view", "FRAME-book", "POP-own"],
    "C17": ["ELITE", "INIT"],              # elitism over all histories: a run must not start from a previous run's state
    "C18": ["CTOR", "INIT"],
}
BND_MONITORS = {
    "C01": "C01", "C02": "C02", "C03": "C03", "C04": "C04", "C05": "C05", "C06": "exc", "C07": "C07", "C08": "C08",
    "C09": "C09", "C10": "C10", "C11": "pooled", "C12": "C12", "C15": "C15", "C17": "C17", "C18": "C18",
}
NO_VC = {"C09"}

TRUSTED_EFF = ["EFF rule table (pyvc/eff.py): syntactic over-approximation of stores / calls / constructors with "
               "intra-procedural alias tracking; dynamic features (setattr, __dict__, exec, eval) are forbidden sites"]


def _eff_component(R, pid):
    from .eff import Analyzer
    fams = list(EFF_FAMILIES.get(pid, [])) + ["FRAME-assigns"]
    an = getattr(R, "_eff", None)
    if an is None:
        an = Analyzer()
        an.run()
        if "ELITE" in fams or True:
            from .elite import classify
            an.elite = classify(an.src)
        R._eff = an
    counters = {}
    for s in an.sites:
        if s.family not in fams:
            continue
        if s.family == "FRAME-assigns" and pid not in s.props:
            continue
        if s.family == "READS-dir":
            continue        # handled below (exclusion list of C12)
        n = counters[(s.cls, s.family, s.func)] = counters.get((s.cls, s.family, s.func), 0) + 1
        name = s.name(n)
        R.obligation(name, "frame", "discharged" if s.ok else "refuted", "EFF", "effect-system", 0.0,
                     f"{s.what}  -- {s.rule}", f"{s.file}:{s.line}")
        if not s.ok:
            R.violation(f"B.{s.cls}.{s.family}.{s.func}|{s.what[:60]}", f"{s.rule} [{s.file}:{s.line}: {s.what}]",
                        {"replay_kind": "none", "site": {"file": s.file, "line": s.line, "what": s.what, "rule": s.rule,
                                                         "family": s.family, "class": s.cls}}, no_input=True)
    if "READS-dir" in fams:
        expected = set(json.load(open(os.path.join(VERIF, "expectations.json")))["C12_excluded"])
        readers = {c for c, v in an.c12_readers.items() if v}
        for c in sorted(readers):
            if c in expected:
                R.notes.append(f"C12: {c} reads fitness / the task direction in its update rule: excluded by the statement")
                continue
            what = an.c12_readers[c][0]
            direction = any(("minmax" in w or "TaskType" in w or "task_type" in w) for w in an.c12_readers[c])
            R.obligation(f"B.{c}.READS-dir", "reads", "refuted" if direction else "discharged", "EFF", "effect-system", 0.0,
                         what, "")
            if direction:
                R.violation(f"B.{c}.READS-dir", f"{c} consults the task direction in its update rule ({what}): max f / min -f duality at risk",
                            {"replay_kind": "none", "reads": an.c12_readers[c][:5]}, no_input=True)
            else:
                R.notes.append(f"C12: {c} now reads Agent.fitness ({what}): excluded from C12 by the statement (was not on the committed list)")
        for cls in sorted({s.cls for s in an.sites if s.family == "READS-dir"} | {c.name for c in an.optimizers}):
            if cls not in readers and cls != "kernel":
                R.obligation(f"B.{cls}.READS-dir", "reads", "discharged", "EFF", "effect-system", 0.0,
                             "no read of Agent.fitness, Task.minmax or TaskType in the class", "")
    if "LEN" in fams:
        from .elite import classify_len
        lens = classify_len(an.src)
        for c in json.load(open(os.path.join(VERIF, "expectations.json"))).get("len_structural", []):
            verdict = lens.get(c)
            ok = verdict is not None and verdict[0]
            R.obligation(f"B.{c}.LEN", "len", "discharged" if ok else "refuted", "EFF", "effect-system", 0.0,
                         (verdict[1] if verdict else "class missing"), "")
            if not ok:
                R.violation(f"B.{c}.LEN", f"{c} no longer conserves the population size structurally: {verdict[1] if verdict else 'class missing'}",
                            {"replay_kind": "none"}, no_input=True)
    if "ELITE" in fams:
        exp = json.load(open(os.path.join(VERIF, "expectations.json")))["elitist"]
        for c in exp:
            verdict = an.elite.get(c)
            ok = verdict is not None and verdict[0]
            R.obligation(f"B.{c}.ELITE", "elite", "discharged" if ok else "refuted", "EFF", "effect-system", 0.0,
                         (verdict[1] if verdict else "class missing"), "")
            if not ok:
                R.violation(f"B.{c}.ELITE", f"{c} is no longer structurally elitist: {verdict[1] if verdict else 'class missing'}",
                            {"replay_kind": "none"}, no_input=True)
    R.trust(*TRUSTED_EFF)
    R.assume("hand-stated meta-theorem: a class whose every store / constructor / call site satisfies the frame rules refines the "
             "abstract hook contract that optimize() is verified against")


def _bnd_component(R, pid, tier, seed):
    from . import bnd
    mon = BND_MONITORS.get(pid)
    if mon is None:
        return
    # the campaign's seeds are fixed (listed in the case records): the verdict on a given tree does not depend on VERIF_SEED
    out = bnd.campaign(tier, 0)
    recs = out["records"]
    exp = json.load(open(os.path.join(VERIF, "expectations.json")))
    ran = 0
    distinct = set()
    samples = []
    viol = {}
    for r in recs:
        c = r["case"]
        if r.get("harness_error"):
            R.machinery.append(f"BND harness error on {c.get('opt')}: {r['harness_error']}")
            continue
        if r.get("skip"):
            continue
        sc = c.get("scenario")
        relevant = {
            "C07": sc in ("repro", "repro0", "repro_bad"), "C08": sc in ("reuse", "reuse2", "reuse3", "reuse_dim", "reuse_int"), "C18": sc in ("setcfg", "setcfg2"),
            "C01": sc in ("single", "reuse3", "reuse_dim"), "C02": sc in ("single", "reuse3", "reuse_dim"),
            "C03": sc in ("single", "reuse3", "reuse_dim"),
            "C12": sc in ("duality", "duality_reuse", "duality_nan", "duality_cached") or (sc == "single" and c.get("debug")),
            "C09": sc in ("single", "rejected", "noseed"), "C06": sc in ("single", "rejected", "reuse_dim", "reuse2", "reuse3", "reuse", "setcfg", "setcfg2"),
            "C10": sc in ("single", "setcfg2"), "C04": sc in ("single", "setcfg2"),
            "C11": c.get("mode") in ("thread", "process"),
            "C05": c.get("kind") != "nanobj" and sc in ("single", "reuse", "reuse2", "reuse3", "reuse_dim", "setcfg", "setcfg2", "repro", "repro0", "duality", "duality_reuse"),
        }.get(pid, sc == "single")
        if not relevant:
            continue
        if str(c.get("scale", "")).startswith("small") and (pid not in ("C10", "C17") or r.get("exc")):
            continue        # below the documented scale: only completed runs, only the size and elitism clauses
        if c.get("kind") == "infpen" and (pid != "C02" or r.get("exc")):
            continue        # infinite penalties: only the truthfulness of reported costs is looked at, on completed runs
        if pid == "C12" and c["opt"] in exp["C12_excluded"]:
            continue
        if pid == "C17" and c["opt"] not in exp["elitist"] and c["opt"] not in exp.get("monotone_in_campaign_not_structural", []):
            continue
        ran += 1
        ckey = (c["opt"], c["kind"], c["direction"], c.get("mode"), sc, c.get("scale"), c.get("stopping"), c.get("seed"))
        if not r.get("exc"):
            distinct.add(ckey)
            if len(samples) < 3:
                samples.append({"case": c, "summary": r.get("summary"), "cycles": r.get("cycles"), "evaluations_of_objective": r.get("evals")})
        msgs = {}
        if pid == "C06":
            if "C06" in r.get("monitors", {}):
                msgs[f"BND.C06.{c['opt']}.rejected"] = r["monitors"]["C06"]
            if r.get("exc"):
                e = r["exc"]
                cont = c["kind"] in bnd.CONT
                if cont and sc in ("single", "rejected"):
                    msgs[f"BND.C06.{c['opt']}.{e['type']}.{e['where']}"] = f"{e['type']} in {e['where']}: {e['msg']}"
                elif cont and not _known_exc(exp, c["opt"], e, c["kind"]):
                    msgs[f"BND.C06.{c['opt']}.{sc}.{e['type']}"] = (f"a valid optimize() call on an instance used before ({sc}) fails: "
                                                                     f"{e['type']} in {e['where']}: {e['msg']}")
        elif pid == "C11":
            for k in ("C01", "C02", "C03", "C05", "C10"):
                if k in r.get("monitors", {}):
                    msgs[f"BND.C11.{c['opt']}.{c.get('mode')}.{k}"] = r["monitors"][k]
            if r.get("exc"):
                e = r["exc"]
                msgs[f"BND.C11.{c['opt']}.{c.get('mode')}.{e['type']}.{e['where']}"] = f"{e['type']} in {e['where']}: {e['msg']}"
            if c.get("mode") in ("process", "thread") and r.get("initial_duplicates", 0) > 0:
                msgs[f"BND.C11.{c['opt']}.{c.get('mode')}.duplicates"] = (f"{r['initial_duplicates']} exact duplicates in a {c.get('mode')}-mode initial "
                                                                   f"population (workers replay one another's random stream)")
        elif pid == "C17":
            if r.get("non_monotone_at"):
                msgs[f"BND.C17.{c['opt']}"] = f"best cost got worse at generation(s) {r['non_monotone_at']}"
        else:
            if mon in r.get("monitors", {}):
                kq = f"BND.{pid}.{c['opt']}"
                if pid == "C10":
                    kq += f".{sc}.x{c.get('scale')}"          # sizes: keyed by scenario and population scale
                if pid == "C05" and c.get("kind") in bnd.INTCODED:
                    kq += f".{c['kind']}"                     # arguments on integer-coded tasks: keyed by the encoding
                msgs[kq] = r["monitors"][mon]
            if pid == "C12" and sc == "single" and "C02" in r.get("monitors", {}):
                msgs[f"BND.C12.{c['opt']}.debug"] = r["monitors"]["C02"]
            if r.get("exc") and pid in ("C07", "C08", "C18", "C12") and c.get("kind") not in ("nanobj", "multiobjc"):   # (an objective that is NaN
                #                                               somewhere is outside the valid tasks: its exceptions are not looked at)
                e = r["exc"]
                if not _known_exc(exp, c["opt"], e, c["kind"]):
                    msgs[f"BND.{pid}.{c['opt']}.{e['type']}"] = f"{e['type']} in {e['where']}: {e['msg']}"
        for k, m in msgs.items():
            viol.setdefault(k, (m, r))
    # C06 on integer-coded tasks: a pair (optimizer, encoding) that works today must not start failing wholesale
    if pid == "C06":
        pairs = {}
        for r in recs:
            c = r["case"]
            if c.get("scenario") == "single" and c["kind"] in bnd.INTCODED and not r.get("skip"):
                pairs.setdefault((c["opt"], c["kind"]), []).append(r)
        failing_today = {tuple(x) for x in exp["C06_intcoded_failing_pairs"]}
        partial_today = {tuple(x) for x in exp.get("C06_intcoded_partial_pairs", [])}
        for (opt, kind), rs in sorted(pairs.items()):
            longest = max(x.get("cycles_budget", 0) for x in rs)
            rs = [x for x in rs if x.get("cycles_budget", 0) == longest]      # only runs with the full budget are looked at
            n_fail = sum(1 for x in rs if x.get("exc"))
            # "wholesale": a pair with no failing run today now fails in at least half of its runs; a pair that fails in some
            # runs today now fails in all of them
            wholesale = (n_fail == len(rs)) if (opt, kind) in partial_today else (2 * n_fail >= len(rs) and n_fail > 0)
            if wholesale and (opt, kind) not in failing_today:
                rs = [x for x in rs if x.get("exc")]
                e = rs[0]["exc"]
                viol.setdefault(f"BND.C06.{opt}.{kind}.wholesale", (f"{n_fail} of the full-budget runs of {opt} on the {kind} task now fail: {e['type']} in {e['where']}: {e['msg']}", rs[0]))
    for k, (m, r) in sorted(viol.items()):
        case = dict(r["case"])
        R.violation(k, m, {"replay_kind": "bnd", "case": _full_case(r, tier, 0), "observed": m})
    R.bounded[f"BND:{pid}"] = {
        "evaluations": ran, "distinct_nontrivial": len(distinct),
        "rule": "cases = (optimizer x task kind x direction x cycles x population scale x seed x mode / scenario) enumerated by "
                "pyvc.bnd.build_cases from the configurations of tests/algorithms; a case is counted when it ran to completion",
        "bound": "cycles <= 6, population <= 3x documented, dimension <= 6, seeds listed in the case records",
        "samples": samples, "campaign_wall_s": out.get("wall"),
    }
    R.assume("BND part: bounded, not proved - run-time form of the same contracts on the enumerated family only")


def _known_exc(exp, opt, e, kind=None):
    """exceptions that the unchanged tree already raises for this optimizer (C06's business, not the relational property's)"""
    if any(opt == k[0] and e["type"] == k[1] for k in exp.get("C06_known_exceptions", [])):
        return True
    return kind is not None and [opt, kind] in exp.get("C06_intcoded_failing_pairs", [])


def _full_case(r, tier, seed):
    from . import bnd
    c = r["case"]
    for full in bnd.build_cases(tier, seed):
        if all(full.get(k) == v for k, v in c.items()):
            return full
    return c


def _laws_component(R, pid):
    from . import laws
    res = laws.run(pid)
    bad = [x for x in res if not x[2]]
    seen = set()
    for fam, desc, ok, msg in bad:
        key = "LAW." + pid + "." + desc.split(" ")[0].split("(")[0]
        if key in seen:
            continue
        seen.add(key)
        R.violation(key, f"{desc}: {msg}", {"replay_kind": "script", "script":
                    "import sys; sys.path.insert(0, %r); sys.path.insert(0, %r)\nfrom pyvc import laws\n"
                    "bad=[x for x in laws.run(%r) if not x[2]]\nprint(bad[:5])\nsys.exit(1 if bad else 0)" % (
                        os.environ.get("PYVC_REPO", "/repo"), VERIF, pid)})
    R.bounded[f"LAWS:{pid}"] = {"evaluations": len(res), "distinct_nontrivial": len({x[1] for x in res}),
                                "rule": "law instances enumerated by pyvc/laws.py (variable kinds x bounds / choice lists x value alphabet "
                                        "incl. boundary, huge, +-inf, fractional, numpy scalars; variable mixes incl. size-1 multi-variables)",
                                "bound": "the enumerated alphabets; <= 8 choices, <= 6 items, <= 5 variables per task",
                                "samples": [x[1] for x in res[:3]]}
    R.assume("law campaign: bounded, not proved")


def _scenario_component(R, pid):
    from . import scenarios
    res = scenarios.run(pid)
    seen = set()
    for fam, desc, ok, msg in res:
        if ok:
            continue
        key = "SCN.C04.stop-rule" if pid == "C04" else "SCN." + pid + "." + desc.split(":")[-1].strip()[:60]
        if key in seen:
            continue
        seen.add(key)
        R.violation(key, f"{desc}: {msg}", {"replay_kind": "script", "script":
                    "import sys; sys.path.insert(0, %r); sys.path.insert(0, %r)\nfrom pyvc import scenarios\n"
                    "bad=[x for x in scenarios.run(%r) if not x[2]]\nprint(bad[:5])\nsys.exit(1 if bad else 0)" % (
                        os.environ.get("PYVC_REPO", "/repo"), VERIF, pid)})
    R.bounded[f"SCENARIOS:{pid}"] = {
        "evaluations": len(res), "distinct_nontrivial": len({x[1] for x in res}),
        "rule": "contract instances enumerated by pyvc/scenarios.py with a scripted optimizer whose calls are logged: " + (
            "parameter grids of 1..3 keys x 1..3 values (dict and list of dicts) exhaustively for the ParameterGrid laws; execute / resolve on "
            "score tables with ties, min and max, 1..3 trials" if pid == "C19" else
            "prescribed rate histories (length 4-6 over {0, .05, .3, .31, .6}) x max_cycles {1,3,5} x fitness_error {None, 0, .3} x early stopping "
            "{None, (1,.1), (2,.05), (2,1), (3,1)} through the real optimize() loop of a scripted optimizer" if pid == "C04" else
            "n, m in 1..3 x the four shapes of modes plus None x 1..2 trials; three export formats; unknown modes"),
        "bound": "the enumerated family only", "samples": [x[1] for x in res[:3]]}
    R.assume("bounded scenario check: ParameterGrid / HyperTuner / Multitask use generators, itertools, pandas and process pools - outside "
             "the VC subset of pyvc; no obligation is counted as proved for this property")


def compose(R, pid, tier, seed, bnd):
    from .props import _vc_component
    from .contract import REG
    import contracts  # noqa: F401
    has_vc = any(pid in c.properties and c.verify for c in REG.contracts.values())
    if has_vc:
        _vc_component(R, pid, tier)
    _eff_component(R, pid)
    if bnd:
        _bnd_component(R, pid, tier, seed)
        if pid in ("C13", "C14"):
            _laws_component(R, pid)
    if pid in ("C19", "C20") or (pid == "C04" and bnd):
        _scenario_component(R, pid)
    if tier == "quick" and has_vc and not R.violations:
        from .extras import audit
        audit(R, pid, budget_s=1.0)
    # lemma scripts (Lean), the longer audit and the mutant self-test are run by the thorough tier
    if tier == "thorough":
        from .extras import thorough_extras
        thorough_extras(R, pid)
