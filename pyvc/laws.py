"""Bounded law campaign for the variable types and the task's search-space description (C13, C14): the run-time form of
the contracts on an enumerated family of variables, values and variable mixes.  Bounded, never counted as proved."""
from __future__ import annotations
import itertools, json, math, os, sys

REPO = os.environ.get("PYVC_REPO", "/repo")
INF = float("inf")


def _vals_cont(lb, ub):
    mid = (lb + ub) / 2
    return [lb, ub, mid, lb - 1.5, ub + 2.25, lb - 1e12, ub + 1e300, INF, -INF, math.nextafter(lb, -INF), math.nextafter(ub, INF),
            0.0, -0.0, 1, -3, 7]


def _vals_disc(n):
    return [0, n - 1, n, n + 1, -1, -0.5, 0.5, n - 0.5, n - 1e-9, n + 0.49, 1e18, INF, -INF, 2.0, 1.9999999999999998, n - 1.0]


def variable_laws():
    """yield (family, description, ok, message) for every law instance"""
    sys.path.insert(0, REPO)
    import numpy as np
    from pyvolutionary.models import (ContinuousVariable, ContinuousMultiVariable, DiscreteVariable, DiscreteMultiVariable,
                                      BinaryVariable, PermutationVariable, MultiObjectiveVariable)
    np.random.seed(7)
    out = []

    def law(fam, desc, cond, msg=""):
        out.append((fam, desc, bool(cond), msg))

    def is_int(x):
        return isinstance(x, (int, np.integer)) and not isinstance(x, bool)

    # ---- continuous
    for lb, ub in [(-1.0, 1.0), (0.0, 10.0), (-5.0, 0.0), (1e-9, 2e-9), (-1e300, 1e300), (3.0, 3.0000000000000004)]:
        v = ContinuousVariable(name="c", lower_bound=lb, upper_bound=ub)
        for _ in range(20):
            r = v.randomize()
            law("C13", f"Continuous[{lb},{ub}].randomize", lb <= r <= ub, f"randomize() = {r!r}")
        for x in _vals_cont(lb, ub) + [np.float64(lb), np.float32(0.5), np.int64(2)]:
            c = v.correct(x)
            law("C13", f"Continuous[{lb},{ub}].correct({x!r}) in domain", isinstance(c, float) and lb <= c <= ub, f"-> {c!r}")
            if lb <= x <= ub:
                law("C13", f"Continuous[{lb},{ub}].correct({x!r}) member unchanged", c == x, f"-> {c!r}")
            law("C13", f"Continuous[{lb},{ub}].correct idempotent at {x!r}", v.correct(c) == c, f"{c!r} -> {v.correct(c)!r}")
            law("C13", f"Continuous decode(correct({x!r}))", v.decode(c) == c)
        law("C13", "Continuous.get_bounds", tuple(v.get_bounds()) == (lb, ub))
    for bad in [(1.0, 1.0), (2.0, 1.0)]:
        try:
            ContinuousVariable(name="c", lower_bound=bad[0], upper_bound=bad[1])
            law("C13", f"Continuous{bad} rejected", False, "accepted")
        except ValueError:
            law("C13", f"Continuous{bad} rejected", True)
    # ---- discrete
    for choices in [["a"], ["a", "b"], [1, 2, 3], list(range(5)), list("abcdefgh"), [0.5, 1.5, 2.5, 3.5]]:
        n = len(choices)
        v = DiscreteVariable(name="d", choices=choices)
        for _ in range(20):
            r = v.randomize()
            law("C13", f"Discrete[{n}].randomize", is_int(r) and 0 <= r < n, f"randomize() = {r!r}")
        for x in _vals_disc(n) + [np.float64(1.5), np.int64(1)]:
            c = v.correct(x)
            law("C13", f"Discrete[{n}].correct({x!r}) in domain", is_int(c) and 0 <= c < n, f"-> {c!r}")
            if is_int(x) and 0 <= x < n:
                law("C13", f"Discrete[{n}].correct({x!r}) member unchanged", c == x, f"-> {c!r}")
            if is_int(c) and 0 <= c < n:
                law("C13", f"Discrete[{n}].correct idempotent at {x!r}", v.correct(c) == c)
                law("C13", f"Discrete[{n}].decode(correct({x!r})) is a choice", v.decode(c) in choices and v.decode(c) == choices[c])
        lo, hi = v.get_bounds()
        law("C13", f"Discrete[{n}].get_bounds", (lo, hi) == (0, n - 1), f"{(lo, hi)!r}")
    # ---- permutation
    for items in [["a"], ["a", "b"], ["x", "y", "z"], list("abcdef"), [3, 1, 2, 10], ["b", 2, "a", 1.5]]:
        n = len(items)
        v = PermutationVariable(name="p", items=items)
        for _ in range(10):
            r = v.randomize()
            law("C13", f"Permutation[{n}].randomize", sorted(r) == list(range(n)), f"{r!r}")
        cands = [list(p) for p in itertools.islice(itertools.permutations(range(n)), 24)]
        rng = np.random.RandomState(3)
        cands += [rng.uniform(-2, 5, n).tolist() for _ in range(6)]
        cands += [[0.0] * n, [float(i) for i in range(n)], [i * (n - 1) / max(1, n - 1) if i in (0, n - 1) else i - 0.5 for i in range(n)],
                  np.arange(n)[::-1], [1e300 * (-1) ** i for i in range(n)], [INF if i == 0 else float(i) for i in range(n)]]
        for x in list(cands):
            # the same candidate as an ndarray: same answer, and the caller's array is left as it was
            if not isinstance(x, np.ndarray):
                arr = np.array(x, dtype=float)
                keep = arr.copy()
                ca = v.correct(arr)
                law("C13", f"Permutation[{n}].correct(ndarray {list(x)!r}) = correct(list) and leaves the array alone",
                    ca == v.correct(list(x)) and np.array_equal(arr, keep, equal_nan=True), f"{ca!r} vs {v.correct(list(x))!r}; array now {arr.tolist()!r}")
        for x in cands:
            c = v.correct(x)
            okc = isinstance(c, list) and sorted(c) == list(range(n)) and all(is_int(e) for e in c)
            law("C13", f"Permutation[{n}].correct({list(x)!r}) is a permutation", okc, f"-> {c!r}")
            if sorted(list(x)) == list(range(n)) and all(float(e).is_integer() for e in x):
                law("C13", f"Permutation[{n}] member {list(x)!r} unchanged", c == [int(e) for e in x], f"-> {c!r}")
            if okc:
                law("C13", f"Permutation[{n}].correct idempotent at {list(x)!r}", v.correct(c) == c, f"{c!r} -> {v.correct(c)!r}")
                d = v.decode(c)
                law("C13", f"Permutation[{n}].decode(correct(.)) rearranges the items", sorted(map(repr, d)) == sorted(map(repr, items)), f"{d!r}")
                enc = v._label_encoder
                law("C13", f"Permutation[{n}].decode consistent with the index order",
                    d == enc.inverse_transform(c), f"{d!r}")
    # ---- multi variables act child-wise; validators
    mv = ContinuousMultiVariable(name="m", lower_bounds=[0, -3, 2], upper_bounds=[1, 0, 2.5])
    for x in [[5, -9, 2.2], [0.5, -1, 9], [INF, -INF, 0]]:
        c = mv.correct(x)
        exp = [ch.correct(xx) for ch, xx in zip(mv.get(), x)]
        law("C13", f"ContinuousMulti.correct({x}) child-wise", c == exp and mv.correct(c) == c, f"{c!r} vs {exp!r}")
    r = mv.randomize()
    law("C13", "ContinuousMulti.randomize members", len(r) == 3 and all(ch.lower_bound <= e <= ch.upper_bound for ch, e in zip(mv.get(), r)))
    law("C13", "ContinuousMulti.size", mv.size() == 3 and len(mv.get()) == 3)
    for cls, kw in [(ContinuousMultiVariable, dict(lower_bounds=[0, 1], upper_bounds=[1])),
                    (ContinuousMultiVariable, dict(lower_bounds=[0, 1], upper_bounds=[1, 1])),
                    (ContinuousMultiVariable, dict(lower_bounds=[0, 2], upper_bounds=[1, 1])),
                    (MultiObjectiveVariable, dict(lower_bounds=[0, 1], upper_bounds=[1, 1])),
                    # length mismatches of every shape (1 vs n is what numpy broadcasting would accept)
                    (ContinuousMultiVariable, dict(lower_bounds=[-5], upper_bounds=[5, 5, 5])),
                    (ContinuousMultiVariable, dict(lower_bounds=[-5, -5, -5], upper_bounds=[5])),
                    (ContinuousMultiVariable, dict(lower_bounds=[-5, -5], upper_bounds=[5, 5, 5])),
                    (ContinuousMultiVariable, dict(lower_bounds=[], upper_bounds=[5])),
                    (MultiObjectiveVariable, dict(lower_bounds=[-5], upper_bounds=[5, 5])),
                    (MultiObjectiveVariable, dict(lower_bounds=[-5, 0], upper_bounds=[5])),
                    (ContinuousMultiVariable, dict(lower_bounds=[0, 1, 5], upper_bounds=[1, 2, 5])),
                    (MultiObjectiveVariable, dict(lower_bounds=[0, 3], upper_bounds=[1, 2])),
                    (BinaryVariable, dict(n_vars=0)), (BinaryVariable, dict(n_vars=-2))]:
        try:
            cls(name="bad", **kw)
            law("C13", f"{cls.__name__}({kw}) rejected", False, "accepted")
        except ValueError:
            law("C13", f"{cls.__name__}({kw}) rejected", True)
    dm = DiscreteMultiVariable(name="dm", choices=[[1, 2, 3], ["a", "b"], [0.5]])
    for x in [[7, -1, 3], [1.7, 0.2, 0], [INF, -INF, 5]]:
        c = dm.correct(x)
        law("C13", f"DiscreteMulti.correct({x}) child-wise", c == [ch.correct(xx) for ch, xx in zip(dm.get(), x)] and dm.correct(c) == c)
        law("C13", f"DiscreteMulti.decode(correct({x}))", dm.decode(c) == [ch.choices[i] for ch, i in zip(dm.get(), c)])
    bv = BinaryVariable(name="b", n_vars=3)
    for x in [[0.4, 1.9, 2.0], [-1, 5, 1], [1.9999999999999998, 0, INF]]:
        c = bv.correct(x)
        law("C13", f"Binary.correct({x}) in {{0,1}}", all(e in (0, 1) and is_int(e) for e in c) and bv.correct(c) == c, f"{c!r}")
    return out


def task_laws():
    sys.path.insert(0, REPO)
    import numpy as np
    from pyvolutionary.models import (Task, ContinuousVariable, ContinuousMultiVariable, DiscreteVariable, DiscreteMultiVariable,
                                      BinaryVariable, PermutationVariable, MultiObjectiveVariable)
    np.random.seed(11)
    out = []

    def law(desc, cond, msg=""):
        out.append(("C14", desc, bool(cond), msg))

    class T(Task):
        def objective_function(self, x):
            return 0.0
    blocks = {
        "C": lambda: ContinuousVariable(name="c", lower_bound=-1, upper_bound=2),
        "CM": lambda: ContinuousMultiVariable(name="cm", lower_bounds=[0, -3], upper_bounds=[1, 0]),
        "CM1": lambda: ContinuousMultiVariable(name="cm1", lower_bounds=[5], upper_bounds=[6]),
        "MO": lambda: MultiObjectiveVariable(name="mo", lower_bounds=[0, 0, 0], upper_bounds=[1, 2, 3]),
        "D": lambda: DiscreteVariable(name="d", choices=["a", "b", "c"]),
        "DM": lambda: DiscreteMultiVariable(name="dm", choices=[[1, 2, 3, 4, 5], [10, 20], ["x", "y", "z"], [True]]),
        "DM1": lambda: DiscreteMultiVariable(name="dm1", choices=[[7, 8, 9]]),
        "B": lambda: BinaryVariable(name="b", n_vars=2),
        "B1": lambda: BinaryVariable(name="b1", n_vars=1),
    }
    mixes = [[k] for k in blocks] + [list(c) for c in itertools.permutations(["C", "DM", "B", "CM1"], 3)][:12] + \
            [["CM", "D", "B1", "MO"], ["DM1", "C"], ["B", "DM", "CM", "D", "C"], ["D", "D2"]]
    blocks["D2"] = lambda: DiscreteVariable(name="d2", choices=[0, 1])
    for mix in mixes:
        vs = [blocks[k]() for k in mix]
        t = T(variables=vs)
        tag = "+".join(mix)
        sizes = [v.size() for v in vs]
        dim = sum(sizes)
        law(f"[{tag}] dimension = sum of sizes", t.space_dimension == dim, f"{t.space_dimension} vs {dim}")
        flat = t.get_variables()
        law(f"[{tag}] one flattened variable per coordinate", len(flat) == dim)
        exp_flat = []
        for v in vs:
            exp_flat += (v.get() if v.has_children() else [v.get()])
        law(f"[{tag}] flattening keeps the order", all(a is b for a, b in zip(flat, exp_flat)) and len(flat) == len(exp_flat))
        try:
            lb, ub = t.get_bounds()
            ok = len(lb) == dim and len(ub) == dim and all(l <= u for l, u in zip(lb, ub))
            law(f"[{tag}] get_bounds: one pair per coordinate, lb <= ub", ok, f"{list(lb)} {list(ub)}")
            # each pair equals the bounds of the owning top-level variable for that coordinate
            exp_lb, exp_ub = [], []
            for v in vs:
                b = v.get_bounds()
                if v.has_children():
                    exp_lb += list(b[0]); exp_ub += list(b[1])
                else:
                    exp_lb.append(b[0]); exp_ub.append(b[1])
            law(f"[{tag}] get_bounds equals the variables' own bounds", list(lb) == exp_lb and list(ub) == exp_ub, f"{list(lb)}/{list(ub)} vs {exp_lb}/{exp_ub}")
            # ... and, for discrete children, the child's own index range
            for i, fv in enumerate(flat):
                if isinstance(fv, DiscreteVariable) and not any(isinstance(v, BinaryVariable) and fv in v.get() for v in vs):
                    law(f"[{tag}] coordinate {i} bounds = its child's index range", (lb[i], ub[i]) == fv.get_bounds(), f"{(lb[i], ub[i])} vs {fv.get_bounds()}")
        except Exception as ex:
            law(f"[{tag}] get_bounds", False, f"{type(ex).__name__}: {ex}")
        for rep in range(4):
            e = t.empty_solution()
            law(f"[{tag}] empty_solution has one coordinate per dimension", len(e) == dim, f"{len(e)}")
            law(f"[{tag}] empty_solution is a fixed point of correct_solution", t.correct_solution(e) == e, f"{e!r} -> {t.correct_solution(e)!r}")
        for raw in ([9.7] * dim, [-4.2] * dim, [0.5 + i for i in range(dim)], np.array([1.5] * dim), np.array([0.9 * i for i in range(dim)])):
            for cand in (raw, list(raw) if not isinstance(raw, list) else np.array(raw)):
                c = t.correct_solution(cand)
                exp = [fv.correct(x) for fv, x in zip(flat, list(cand))]
                law(f"[{tag}] correct_solution acts coordinate-wise with the owning variable ({type(cand).__name__})", c == exp and len(c) == dim,
                    f"{c!r} vs {exp!r}")
                i_s = t.initial_solution(cand)
                law(f"[{tag}] initial_solution == correct_solution ({type(cand).__name__})", i_s == exp, f"{i_s!r} vs {exp!r}")
        x = t.correct_solution([0.6 + i for i in range(dim)])
        try:
            d = t.transform_solution(x)
            ok = list(d) == [v.name for v in vs]
            k = 0
            for v in vs:
                sl = x[k:k + v.size()]
                ok = ok and d[v.name] == v.decode(sl if v.has_children() else sl[0])
                ok = ok and (isinstance(d[v.name], list) == v.has_children())
                k += v.size()
            law(f"[{tag}] transform_solution: one entry per variable holding its decoded slice", ok, f"{d!r}")
        except Exception as ex:
            law(f"[{tag}] transform_solution", False, f"{type(ex).__name__}: {ex}")
    # several tasks with the same layout (kinds, names, sizes) and different domains in one process: each answers for itself
    def layout(k):
        return [ContinuousVariable(name="c", lower_bound=-1.0 - k, upper_bound=2.0 + 3 * k),
                DiscreteMultiVariable(name="dm", choices=[list(range(2 + k)), ["u", "v", "w"][: 2 + (k % 2)]]),
                ContinuousMultiVariable(name="cm", lower_bounds=[0.0 + k, -3.0], upper_bounds=[1.0 + 2 * k, 0.5 * k]),
                DiscreteVariable(name="d1", choices=["only"] if k == 0 else ["only", "two"][: 1 + (k % 2)])]
    tasks_ = [T(variables=layout(k)) for k in range(3)]
    for k, tk in enumerate(tasks_):
        own = []
        for v in tk.variables:
            own += (v.get() if v.has_children() else [v.get()])
        fl = tk.get_variables()
        law(f"[same layout #{k}] get_variables returns this task's own variables", len(fl) == len(own) and all(a is b for a, b in zip(fl, own)))
        lb, ub = tk.get_bounds()
        elb, eub = [], []
        for v in tk.variables:
            b = v.get_bounds()
            if v.has_children():
                elb += list(b[0]); eub += list(b[1])
            else:
                elb.append(b[0]); eub.append(b[1])
        law(f"[same layout #{k}] get_bounds equals this task's own bounds, exactly", list(lb) == elb and list(ub) == eub, f"{list(lb)}/{list(ub)} vs {elb}/{eub}")
        for raw in ([99.0] * tk.space_dimension, [-99.0] * tk.space_dimension):
            c = tk.correct_solution(raw)
            exp = [fv.correct(x) for fv, x in zip(own, raw)]
            law(f"[same layout #{k}] correct_solution uses this task's own domains", c == exp, f"{c!r} vs {exp!r}")
            law(f"[same layout #{k}] corrected coordinates lie within this task's bounds", all(l <= x <= u for x, l, u in zip(c, elb, eub)), f"{c!r}")
    # single permutation variable (a second, shorter one is built afterwards: label encoders must not share state)
    pv = PermutationVariable(name="p", items=["a", "b", "c", "d"])
    t = T(variables=[pv])
    pv_short = PermutationVariable(name="q", items=["x", "y"])
    t_short = T(variables=[pv_short])
    law("[P] a later, shorter permutation task does not disturb the first one's decoding",
        t.transform_solution([[3, 1, 0, 2]]) == {"p": ["d", "b", "a", "c"]} and t_short.transform_solution([[1, 0]]) == {"q": ["y", "x"]},
        f"{t.transform_solution([[3, 1, 0, 2]])} / {t_short.transform_solution([[1, 0]])}")
    lbp, ubp = t.get_bounds()
    law("[P] get_bounds: one pair for the one coordinate, the variable's own bounds", len(lbp) == 1 and len(ubp) == 1 and
        list(np.asarray(lbp[0]).ravel()) == list(pv.get_bounds()[0]) and list(np.asarray(ubp[0]).ravel()) == list(pv.get_bounds()[1]),
        f"{lbp!r} {ubp!r}")
    law("[P] dimension", t.space_dimension == 1 and len(t.get_variables()) == 1)
    e = t.empty_solution()
    law("[P] empty_solution", len(e) == 1 and sorted(e[0]) == [0, 1, 2, 3])
    law("[P] correct_solution fixed point", t.correct_solution(e) == e)
    for keys in ([30, 25, 1, 7.5, 2][:4], [-3.0, -7.0, 9.0, 8.0], [0.2, 0.1, 3.9, 3.5], [100.0, 50.0, 75.0, 60.0]):
        law(f"[P] correct_solution({keys}) ranks the keys with the variable's own rule", t.correct_solution([keys]) == [pv.correct(keys)],
            f"{t.correct_solution([keys])} vs {[pv.correct(keys)]}")
    d = t.transform_solution(e)
    law("[P] transform_solution", list(d) == ["p"] and d["p"] == [["a", "b", "c", "d"][i] for i in e[0]], f"{d!r} for {e!r}")
    return out


def run(which):
    """a law whose evaluation raises is a violated law, not a crash of the campaign"""
    try:
        return variable_laws() if which == "C13" else task_laws()
    except Exception as ex:
        import traceback
        tb = traceback.extract_tb(ex.__traceback__)
        where = next((f"{os.path.basename(f.filename)}:{f.lineno} {f.name}" for f in reversed(tb) if "pyvolutionary" in f.filename), "?")
        mine = next((f"laws.py:{f.lineno}" for f in reversed(tb) if f.filename.endswith("laws.py")), "?")
        return [(which, f"law evaluation at {mine}", True, ""), (which, f"law evaluation at {mine}", False, f"{type(ex).__name__}: {ex} (in {where})")]


if __name__ == "__main__":
    for w in ("C13", "C14"):
        r = run(w)
        bad = [x for x in r if not x[2]]
        print(w, len(r), "laws,", len(bad), "violated")
        for b in bad[:15]:
            print("   ", b[1], "|", b[3][:150])
