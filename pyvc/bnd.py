"""BND: bounded run-time stand-ins (DESIGN §8).  The python side of the specification vocabulary (Space, Reported, Stop,
SizeOK, ...) is evaluated on real runs of the real optimizers over an enumerated family of tasks, configurations, seeds
and modes.  Everything found here is *bounded*, reported separately and never counted as proved.

One campaign serves every property: each case record carries one verdict per monitor."""
from __future__ import annotations
import ast, copy, glob, hashlib, json, math, os, sys, time, traceback
from concurrent.futures import ProcessPoolExecutor

VERIF = os.path.dirname(os.path.dirname(os.path.abspath(__file__)))
REPO = os.environ.get("PYVC_REPO", "/repo")
VARIABLE_SIZE = {"BeeColonyOptimization", "ForestOptimizationAlgorithm", "ImperialistCompetitiveOptimization"}


# ---- configurations harvested from the repository's own test files ---------------------------------------------------------------
def _const(node):
    """literal or constant arithmetic (partition=5.0 / 12.0)"""
    try:
        return ast.literal_eval(node)
    except Exception:
        if all(isinstance(n, (ast.Expression, ast.BinOp, ast.UnaryOp, ast.Constant, ast.operator, ast.unaryop, ast.List, ast.Tuple,
                              ast.Load)) for n in ast.walk(node)):
            return eval(compile(ast.Expression(node), "<cfg>", "eval"), {"__builtins__": {}})
        raise


def harvest_configs():
    """{optimizer class name: (config class name, kwargs)} from tests/algorithms/test_*.py (AST, literal kwargs)"""
    out = {}
    for f in sorted(glob.glob(os.path.join("/repo", "tests", "algorithms", "test_*.py"))):
        try:
            tree = ast.parse(open(f).read())
        except SyntaxError:
            continue
        cfg = None
        for node in ast.walk(tree):
            if isinstance(node, ast.Call) and isinstance(node.func, ast.Name) and node.func.id.endswith("Config"):
                try:
                    kw = {k.arg: _const(k.value) for k in node.keywords if k.arg}
                except Exception:
                    continue
                cfg = (node.func.id, kw)
                break
        opt = None
        for node in ast.walk(tree):
            if isinstance(node, ast.Call) and isinstance(node.func, ast.Name) and (
                    node.func.id.endswith("Optimization") or node.func.id.endswith("Algorithm")) and node.args:
                opt = node.func.id
                break
        if cfg and opt:
            out[opt] = cfg
    return out


# ---- tasks ----------------------------------------------------------------------------------------------------------------------------
_CALLS = []          # arguments of objective_function seen in this process (serial / thread modes)
_TASK_CLS = None


def _task_class():
    """a module-level (picklable) Task subclass; the objective records its arguments and checks them in workers too"""
    global _TASK_CLS
    if _TASK_CLS is None:
        from pyvolutionary.models import Task

        class BndTask(Task):
            def objective_function(self, x):
                _CALLS.append(copy.deepcopy(x))
                msg = in_space(self, x)
                if msg and self.data and self.data.get("log"):
                    with open(self.data["log"], "a") as f:      # visible to the parent also from worker processes
                        f.write(json.dumps({"x": repr(x), "msg": msg}) + "\n")
                if self.data["kind"] == "labeldec":
                    dec = self.transform_solution(x)
                    wl = {"rome": 1.0, "oslo": 2.5, "bern": 4.0, "kyiv": 5.5, "riga": 7.0, "baku": 8.5,
                          "red": 0.25, "green": 1.25, "blue": 2.25, "cyan": 3.25}
                    return float(sum((i + 1) * wl[str(lab)] for i, lab in enumerate(dec["p"])))
                return _objective(self.data["kind"], x)
        BndTask.__module__ = __name__
        BndTask.__qualname__ = "BndTask"
        globals()["BndTask"] = BndTask
        _TASK_CLS = BndTask
    return _TASK_CLS


def make_task(kind, direction, seed, log=None):
    from pyvolutionary.models import (ContinuousMultiVariable, ContinuousVariable, DiscreteMultiVariable,
                                      BinaryVariable, PermutationVariable, DiscreteVariable)
    _T = _task_class()
    del _CALLS[:]
    calls = _CALLS
    if kind == "cont3":       # asymmetric bounds, one zero bound on each side
        vs = [ContinuousMultiVariable(name="x", lower_bounds=[0, 0, -5], upper_bounds=[10, 3, 0])]
    elif kind == "cont3c":    # same space as cont3, another objective (reuse of an instance on a task that shares positions)
        vs = [ContinuousMultiVariable(name="x", lower_bounds=[0, 0, -5], upper_bounds=[10, 3, 0])]
    elif kind == "plateau":   # piecewise-constant objective with an exact-zero plateau: ties and zero costs are the norm
        vs = [ContinuousMultiVariable(name="x", lower_bounds=[-3, -3], upper_bounds=[3, 3])]
    elif kind == "cont3b":    # same dimension, much wider bounds (reuse of an instance on another task)
        vs = [ContinuousMultiVariable(name="x", lower_bounds=[-400, -100, -900], upper_bounds=[100, 700, 50])]
    elif kind == "cont1":
        vs = [ContinuousVariable(name="x", lower_bound=-2.5, upper_bound=7.0)]
    elif kind == "nanobj":    # an objective that is undefined (NaN) on part of the box
        vs = [ContinuousMultiVariable(name="x", lower_bounds=[-3, -3], upper_bounds=[5, 5])]
    elif kind == "infpen":    # an infinite penalty on part of the box (a legitimate, deterministic objective)
        vs = [ContinuousMultiVariable(name="x", lower_bounds=[-3, -3], upper_bounds=[5, 5])]
    elif kind == "multiobjc":  # a two-objective task whose objective hands back one and the same list object on part of the box
        vs = [ContinuousMultiVariable(name="x", lower_bounds=[-4, 0], upper_bounds=[4, 6])]
    elif kind == "multi1":    # dimension 1 written with a multi-variable of one coordinate
        vs = [ContinuousMultiVariable(name="x", lower_bounds=[-2.5], upper_bounds=[7.0])]
    elif kind == "multi1b":   # a size-1 multi-variable next to another variable
        vs = [ContinuousMultiVariable(name="x", lower_bounds=[-2.5], upper_bounds=[7.0]), ContinuousVariable(name="y", lower_bound=0.0, upper_bound=3.0)]
    elif kind == "contbig":
        vs = [ContinuousMultiVariable(name="x", lower_bounds=[-1e6, 1e5], upper_bounds=[1e6, 3e5])]
    elif kind == "multiobj":
        vs = [ContinuousMultiVariable(name="x", lower_bounds=[-4, 0], upper_bounds=[4, 6])]
    elif kind == "discrete":
        vs = [DiscreteMultiVariable(name="d", choices=[[1, 2, 3], [4, 5], [0.5, 1.5, 2.5, 3.5]])]
    elif kind == "binary":
        vs = [BinaryVariable(name="b", n_vars=5)]
    elif kind == "mixed":
        vs = [ContinuousVariable(name="c", lower_bound=-1, upper_bound=2), DiscreteVariable(name="d", choices=["a", "b", "c"]),
              BinaryVariable(name="b", n_vars=2), ContinuousMultiVariable(name="m", lower_bounds=[0, -3], upper_bounds=[1, 0])]
    elif kind == "perm":
        vs = [PermutationVariable(name="p", items=["a", "b", "c", "d", "e", "f"])]
    elif kind == "labeldec":  # string labels decoded through transform_solution (cost depends on which label an index means)
        vs = [PermutationVariable(name="p", items=["rome", "oslo", "bern", "kyiv", "riga", "baku"])]
    else:
        raise ValueError(kind)
    kw = dict(variables=vs, minmax=direction, seed=seed, data={"kind": kind, "log": log})
    if kind in ("multiobj", "multiobjc"):
        kw["objective_weights"] = [0.3, 0.9]       # deliberately not normalised
    t = _T(**kw)
    return t, calls


_PENALTY = [50.0, 40.0]          # one list object, returned again and again (the library must not write into it)


def _objective(kind, x):
    if kind.startswith("neg:"):
        y = _objective(kind[4:], x)
        return [-v for v in y] if isinstance(y, list) else -y
    if kind in ("cont3",):
        return (x[0] - 2.0) ** 2 + (x[1] - 1.0) ** 2 + (x[2] + 1.5) ** 2 + 0.25
    if kind == "cont3b":
        return abs(x[0] + 7.0) + abs(x[1] - 30.0) + abs(x[2] + 3.0) + 40.0
    if kind == "cont3c":
        return 3.0 * abs(x[0] - 7.0) + (x[1] - 2.5) ** 2 + abs(x[2] + 4.0) + 11.0
    if kind == "plateau":
        return float(int(abs(x[0])) + int(abs(x[1])))
    if kind in ("cont1", "multi1"):
        return (x[0] - 1.0) ** 2 - 3.0          # negative costs occur
    if kind == "multi1b":
        return (x[0] - 1.0) ** 2 + (x[1] - 2.0) ** 2 - 3.0
    if kind == "infpen":
        return float("inf") if x[0] > 2.0 else float((x[0] + 1.0) ** 2 + (x[1] - 1.0) ** 2 + 0.5)
    if kind == "multiobjc":
        if x[0] > 1.0:
            return _PENALTY if not kind.startswith("neg:") else [-v for v in _PENALTY]
        return [x[0] ** 2 + 1.0, (x[1] - 2.0) ** 2]
    if kind == "nanobj":
        return float(sum((math.log(v) - v) if v > 0 else float("nan") for v in x))
    if kind == "contbig":
        return abs(x[0]) * 1e-3 + abs(x[1] - 2e5) * 1e-3
    if kind == "multiobj":
        return [x[0] ** 2 + 1.0, (x[1] - 2.0) ** 2]
    if kind == "discrete":
        return float(abs(x[0] - 1) + abs(x[1] - 1) + abs(x[2] - 2)) + 0.5
    if kind == "binary":
        return float(sum(x)) + 1.0
    if kind == "mixed":
        return (x[0] - 0.5) ** 2 + float(x[1]) + float(x[2] + x[3]) + (x[4] - 0.5) ** 2 + (x[5] + 1) ** 2
    if kind == "perm":
        p = x[0]
        return float(sum(abs(v - i) for i, v in enumerate(p))) + 1.0
    raise ValueError(kind)


# ---- python side of the vocabulary ---------------------------------------------------------------------------------------------------------
def in_space(task, position):
    """Space(task, p): one coordinate per flattened variable; finite in-bounds reals; integer choice indexes; index permutations"""
    from pyvolutionary.models import ContinuousVariable, DiscreteVariable, PermutationVariable
    vs = task.get_variables()
    if not isinstance(position, (list, tuple)) or len(position) != len(vs):
        return f"length {len(position) if hasattr(position, '__len__') else '?'} != {len(vs)}"
    for i, (v, c) in enumerate(zip(vs, position)):
        if isinstance(v, ContinuousVariable):
            if isinstance(c, bool) or not isinstance(c, (int, float)) or math.isnan(c) or math.isinf(c):
                return f"coordinate {i} = {c!r} is not a finite real"
            if not (v.lower_bound <= c <= v.upper_bound):
                return f"coordinate {i} = {c!r} outside [{v.lower_bound}, {v.upper_bound}]"
        elif isinstance(v, DiscreteVariable):
            if isinstance(c, bool) or not isinstance(c, int) or not (0 <= c < len(v.choices)):
                return f"coordinate {i} = {c!r} is not an index of {len(v.choices)} choices"
        elif isinstance(v, PermutationVariable):
            n = len(v.items)
            if not isinstance(c, (list, tuple)) or sorted(c) != list(range(n)) or any(isinstance(e, bool) or not isinstance(e, int) for e in c):
                return f"coordinate {i} = {c!r} is not a permutation of range({n})"
        else:
            return f"unknown variable kind at {i}"
    return None


def user_cost(task, kind, position):
    y = _objective(kind, position)
    if isinstance(y, list):
        import numpy as np
        return float(np.dot(y, task.objective_weights))
    return float(y)


def fit(c):
    return 1.0 / (1.0 + c) if c >= 0 else 1.0 + abs(c)


def stop_spec(cfg, k, rates):
    if k >= cfg.max_cycles:
        return True
    if cfg.fitness_error is not None and rates[k - 1] <= cfg.fitness_error:
        return True
    es = cfg.early_stopping
    if es is not None:
        # a criterion left at None means the model's default (EarlyStopping: patience 1, min_delta 1e-4)
        patience = es.patience if es.patience is not None else 1
        min_delta = es.min_delta if es.min_delta is not None else 1e-4
        if k - 1 >= patience and all((rates[j] - rates[j - 1] < 0) and abs(rates[j] - rates[j - 1]) < min_delta for j in range(k - patience, k)):
            return True
    return False


def close(a, b):
    if a == b:
        return True
    if math.isnan(a) or math.isnan(b):
        return False
    if math.isinf(a) or math.isinf(b):
        return False            # (equal infinities were accepted above; an infinity is close to nothing else)
    return abs(a - b) <= 1e-9 * max(1.0, abs(a), abs(b))


# ---- one case ------------------------------------------------------------------------------------------------------------------------------------
def run_case(case):
    """case: dict(opt, cfg_name, cfg_kw, kind, direction, seed, mode, workers, scenario).  Returns a record with one
    entry per monitor: None (held) or a message (violated); 'exc' for an exception keyed by (type, raising function)."""
    sys.path.insert(0, REPO)
    import numpy as np
    import pyvolutionary as pv
    from pyvolutionary.models import Population
    rec = {"case": {k: case[k] for k in case if k != "cfg_kw"}, "monitors": {}, "exc": None, "evals": 0,
           "cycles_budget": case["cfg_kw"].get("max_cycles")}
    M = rec["monitors"]
    K = getattr(pv, case["opt"])
    C = getattr(pv, case["cfg_name"])
    try:
        cfg = C(**case["cfg_kw"])
    except Exception as ex:  # configuration rejected by the validators: not a case
        rec["skip"] = f"config rejected: {type(ex).__name__}"
        return rec
    import tempfile
    logf = tempfile.NamedTemporaryFile(prefix="bnd_c05_", suffix=".log", delete=False)
    logf.close()
    task, calls = make_task(case["kind"], case["direction"], None if case.get("scenario") == "noseed" else case["seed"], log=logf.name)
    cfg_before, task_before = cfg.model_dump(), task.model_dump()

    def _obs(t):        # what the task answers about its search space (also covers private caches the dump does not show)
        try:
            return repr([np.asarray(b).tolist() for b in t.get_bounds()]) + repr(t.space_dimension) + repr([v.model_dump() for v in t.get_variables()])
        except Exception as ex_:  # noqa
            return f"{type(ex_).__name__}"
    obs_before = _obs(task)
    snaps = []
    orig_init = Population.__init__

    def rec_init(self, **kw):
        orig_init(self, **kw)
        snaps.append((self, copy.deepcopy(self.model_dump())))
    Population.__init__ = rec_init
    np.random.seed(12345 + case["seed"])       # pre-perturb the global stream: a seeded run must not depend on it
    t0 = time.time()
    import contextlib, io
    sink = io.StringIO()
    if case.get("scenario") == "rejected":
        # an invalid call (objective / weight count mismatch) must be rejected and must leave configuration and task alone
        task.objective_weights = [0.2, 0.3, 0.5] if case["kind"] == "multiobj" else [1.0, 2.0]
        task_before = task.model_dump()
        try:
            with contextlib.redirect_stdout(sink):
                K(cfg).optimize(task)
            M["C06"] = "objective / weight count mismatch was not rejected"
        except ValueError:
            pass
        except Exception as ex:
            M["C06"] = f"objective / weight count mismatch raised {type(ex).__name__}, not ValueError"
        finally:
            Population.__init__ = orig_init
        if cfg.model_dump() != cfg_before:
            M["C09"] = f"configuration changed by a rejected optimize(): {cfg_before.get('population_size')} -> {cfg.population_size}"
        elif task.model_dump() != task_before:
            M["C09"] = "task changed by a rejected optimize()"
        try:
            os.unlink(logf.name)
        except OSError:
            pass
        return rec
    try:
      with contextlib.redirect_stdout(sink):
        opt = K(cfg, debug=True) if case.get("debug") else K(cfg)
        kwargs = {}
        if case.get("mode"):
            kwargs = dict(mode=case["mode"], workers=case.get("workers", 2))
        res = opt.optimize(task, **kwargs)
    except Exception as ex:
        tb = traceback.extract_tb(ex.__traceback__)
        fn = next((f"{os.path.basename(f.filename)}:{f.name}" for f in reversed(tb) if "pyvolutionary" in f.filename), "?")
        rec["exc"] = {"type": type(ex).__name__, "where": fn, "msg": str(ex)[:160]}
        return rec
    finally:
        Population.__init__ = orig_init
        try:
            lines = open(logf.name).read().splitlines()
            os.unlink(logf.name)
        except OSError:
            lines = []
        if lines:
            d = json.loads(lines[0])
            M["C05"] = f"objective called with {d['x']}: {d['msg']} ({len(lines)} such calls)"
    rec["wall"] = round(time.time() - t0, 3)
    rec["evals"] = len(calls)
    rec["cycles"] = len(res.rates)
    kind = case["kind"]
    ismax = case["direction"] == "max"
    gens = [g.agents for g in res.evolution]
    # C05: every evaluation inside the search space is checked inside the objective itself (also in workers)
    # C01 / C02
    for gi, g in enumerate(gens + [[res.best_solution]]):
        for a in g:
            msg = in_space(task, a.position)
            if msg and "C01" not in M:
                M["C01"] = f"generation {gi}: position {a.position!r}: {msg}"
            if not msg:
                try:
                    c = user_cost(task, kind, a.position)
                except Exception as ex:
                    c = float("nan")
                if not close(a.cost, c) and "C02" not in M:
                    M["C02"] = f"generation {gi}: cost {a.cost!r} but objective(position) = {c!r} at {a.position!r}"
                elif not close(a.fitness, fit(a.cost)) and "C02" not in M and not math.isinf(a.cost):
                    M["C02"] = f"generation {gi}: fitness {a.fitness!r} but Fit(cost) = {fit(a.cost)!r}"
    # C03
    last = gens[-1]
    b = res.best_solution
    if not any(a.position == b.position and close(a.cost, b.cost) for a in last):
        M["C03"] = f"best_solution {b.position!r}/{b.cost!r} is not an agent of the last generation"
    elif any((a.cost > b.cost and not close(a.cost, b.cost)) if ismax else (a.cost < b.cost and not close(a.cost, b.cost)) for a in last):
        M["C03"] = f"an agent of the last generation is strictly better than best_solution (cost {b.cost!r})"
    # C04: the criteria are the ones the caller configured (the parameters given, not what the object reads back)
    from types import SimpleNamespace as _NS
    kw_ = case["cfg_kw"]
    es_ = kw_.get("early_stopping")
    if isinstance(es_, dict):
        es_ = _NS(patience=es_.get("patience", 1), min_delta=es_.get("min_delta", 1e-4))
    intended = _NS(max_cycles=kw_["max_cycles"], fitness_error=kw_.get("fitness_error", 0.1), early_stopping=es_)
    if (cfg.max_cycles, cfg.fitness_error) != (intended.max_cycles, intended.fitness_error) or (cfg.early_stopping is None) != (es_ is None):
        M["C04"] = (f"the configured stop criteria are not the ones given: max_cycles {cfg.max_cycles} / fitness_error {cfg.fitness_error} / "
                    f"early_stopping {cfg.early_stopping} for parameters {dict((k, kw_.get(k)) for k in ('max_cycles', 'fitness_error', 'early_stopping'))}")
    cfg_obj, cfg = cfg, intended
    Kc = len(res.rates)
    if "C04" in M:
        pass
    elif len(res.evolution) != Kc + 1 or not (1 <= Kc <= cfg.max_cycles):
        M["C04"] = f"{len(res.evolution)} generations, {Kc} rates, max_cycles {cfg.max_cycles}"
    else:
        if not stop_spec(cfg, Kc, res.rates):
            M["C04"] = f"stopped after {Kc} cycles although no criterion holds (rates {res.rates})"
        for k in range(1, Kc):
            if stop_spec(cfg, k, res.rates[:k]):
                M["C04"] = f"criterion held after cycle {k} but {Kc} cycles ran (rates {res.rates})"
                break
        for k in range(1, Kc + 1):
            mf = float(np.average([a.fitness for a in gens[k]]))
            if not close(res.rates[k - 1], abs(1 - mf)):
                M["C04"] = f"rate {k} = {res.rates[k - 1]!r} but |1 - mean fitness| of generation {k} = {abs(1 - mf)!r}"
                break
    cfg = cfg_obj
    # C09
    if cfg.model_dump() != cfg_before:
        diff = {k: (cfg_before[k], v) for k, v in cfg.model_dump().items() if cfg_before.get(k) != v}
        M["C09"] = f"configuration changed by optimize(): {diff}"
    elif task.model_dump() != task_before:
        M["C09"] = "task changed by optimize()"
    elif _obs(task) != obs_before:
        M["C09"] = f"the task's search-space description changed by optimize(): {obs_before[:80]} -> {_obs(task)[:80]}"
    # C10
    N = cfg.population_size
    for gi, g in enumerate(gens):
        if not (1 <= len(g) <= N):
            M["C10"] = f"generation {gi} has {len(g)} agents (population_size {N})"
            break
        if case["opt"] not in VARIABLE_SIZE and len(g) != N:
            M["C10"] = f"generation {gi} has {len(g)} agents, expected exactly {N}"
            break
    # C15 (a): recorded generations unchanged since they were recorded
    for pop, dump in snaps:
        if pop.model_dump() != dump:
            M["C15"] = "a recorded generation changed after it was recorded"
            break
    # C15 (b): the trend utilities on the real result: best of every generation in the task's direction; the last entry is the
    # reported best solution (the result is self-consistent)
    if "C15" not in M:
        try:
            from pyvolutionary.utils import best_agent_trend, best_agent_position, agent_trend
            tr = best_agent_trend(res)
            exp_tr = [(max if ismax else min)(a.cost for a in g) for g in gens]
            if len(tr) != len(exp_tr) or not all(close(x, y) for x, y in zip(tr, exp_tr)):
                M["C15"] = f"best_agent_trend {tr[:4]} is not the best cost of each recorded generation {exp_tr[:4]}"
            elif not close(tr[-1], b.cost):
                M["C15"] = f"best_agent_trend ends with {tr[-1]!r} but best_solution.cost is {b.cost!r}"
            elif best_agent_position(res)[-1] != b.position and not any(a.position == b.position and close(a.cost, tr[-1]) for a in gens[-1]):
                M["C15"] = "best_agent_position ends at a position that is not best_solution's"
            else:
                w = agent_trend(res, len(gens[-1]) - 1 if all(len(g) == len(gens[-1]) for g in gens) else 0)
                if len(w) != len(gens):
                    M["C15"] = f"agent_trend has {len(w)} entries for {len(gens)} generations"
        except Exception as ex_:  # noqa
            M["C15"] = f"trend utilities fail on the result: {type(ex_).__name__}: {ex_}"
    # C17: best cost never gets worse (only meaningful for classes on the elitist list; recorded for all)
    bests = [(max if ismax else min)(a.cost for a in g) for g in gens]
    worse = [k for k in range(1, len(bests)) if ((bests[k] < bests[k - 1]) if ismax else (bests[k] > bests[k - 1])) and not close(bests[k], bests[k - 1])]
    rec["non_monotone_at"] = worse[:3]
    rec["summary"] = {"best": b.cost, "rates": res.rates[:3], "sizes": [len(g) for g in gens][:4]}
    rec["digest"] = hashlib.sha1(json.dumps(res.model_dump(), sort_keys=True, default=str).encode()).hexdigest()
    # C11: duplicates in the initial population (pooled modes)
    if case.get("mode") in ("thread", "process"):
        pos0 = [tuple(map(repr, a.position)) for a in gens[0]]
        dup = len(pos0) - len(set(pos0))
        rec["initial_duplicates"] = dup
    return rec


def truth_monitors(task, kind, res):
    """C01 / C02 / C03 on one result (used for the second run of the relational scenarios)"""
    out = {}
    ismax = str(task.minmax) == "max"
    gens = [g.agents for g in res.evolution]
    for gi, g in enumerate(gens + [[res.best_solution]]):
        for a in g:
            msg = in_space(task, a.position)
            if msg:
                out.setdefault("C01", f"generation {gi}: position {a.position!r}: {msg}")
                continue
            c = user_cost(task, kind, a.position)
            if not close(a.cost, c):
                out.setdefault("C02", f"generation {gi}: cost {a.cost!r} but objective(position) = {c!r} at {a.position!r}")
    b = res.best_solution
    if not any(a.position == b.position and close(a.cost, b.cost) for a in gens[-1]):
        out["C03"] = f"best_solution {b.position!r}/{b.cost!r} is not an agent of the last generation"
    elif any(((a.cost > b.cost) if ismax else (a.cost < b.cost)) and not close(a.cost, b.cost) for a in gens[-1]):
        out["C03"] = "an agent of the last generation is strictly better than best_solution"
    return out


# ---- relational scenarios (two runs) ------------------------------------------------------------------------------------------------------------------
def run_pair(case):
    """scenario in {'repro', 'reuse', 'setcfg', 'duality'}: two complete runs compared"""
    sys.path.insert(0, REPO)
    import numpy as np
    import pyvolutionary as pv
    sc = case["scenario"]
    rec = {"case": {k: case[k] for k in case if k != "cfg_kw"}, "monitors": {}, "exc": None}
    K = getattr(pv, case["opt"])
    C = getattr(pv, case["cfg_name"])

    import tempfile
    plog = tempfile.NamedTemporaryFile(prefix="bnd_c05p_", suffix=".log", delete=False)
    plog.close()

    def fresh(direction=None, neg=False, kind=None, seed=None):
        # the objective of every task of a relational scenario checks its argument too (C05 on used instances)
        t, _ = make_task(kind or case["kind"], direction or case["direction"], case["seed"] if seed is None else seed, log=plog.name)
        if neg:
            t.data["kind"] = "neg:" + t.data["kind"]
        return t
    try:
        cfg = C(**case["cfg_kw"])
        if sc == "repro":
            np.random.seed(1)
            a = K(C(**case["cfg_kw"])).optimize(fresh())
            np.random.seed(2)
            np.random.random(7)
            b = K(C(**case["cfg_kw"])).optimize(fresh())
            if a.model_dump() != b.model_dump():
                rec["monitors"]["C07"] = "two serial runs with the same seed differ"
        elif sc == "reuse":
            o = K(C(**case["cfg_kw"]))
            o.optimize(fresh())
            second = o.optimize(fresh())
            ref = K(C(**case["cfg_kw"])).optimize(fresh())
            if second.model_dump() != ref.model_dump():
                rec["monitors"]["C08"] = (f"second optimize() on a used instance differs from a fresh instance "
                                          f"({len(second.rates)} vs {len(ref.rates)} cycles)")
        elif sc == "reuse2":
            # an instance used on another task of the same dimension (different bounds, other objective) before
            o = K(C(**case["cfg_kw"]))
            o.optimize(fresh(kind="cont3b"))
            second = o.optimize(fresh())
            ref = K(C(**case["cfg_kw"])).optimize(fresh())
            if second.model_dump() != ref.model_dump():
                rec["monitors"]["C08"] = "optimize() on an instance used before on another task differs from a fresh instance"
        elif sc == "reuse3":
            # the earlier run was on a task with the same space and seed but another objective (positions coincide)
            o = K(C(**case["cfg_kw"]))
            o.optimize(fresh(kind="cont3c"))
            t2 = fresh()
            second = o.optimize(t2)
            rec["monitors"].update(truth_monitors(t2, case["kind"], second))
            ref = K(C(**case["cfg_kw"])).optimize(fresh())
            if second.model_dump() != ref.model_dump():
                rec["monitors"]["C08"] = "optimize() on an instance used before on a task sharing the search space differs from a fresh instance"
        elif sc == "reuse_int":
            # the earlier run was on an all-integer task of the same dimension (dtypes of cached arrays must not leak)
            o = K(C(**case["cfg_kw"]))
            try:
                o.optimize(fresh(kind="discrete"))
            except Exception:  # noqa  (many optimizers do not run on integer-coded tasks: not this scenario's business)
                rec["skip"] = "first run on the integer-coded task failed"
                return rec
            second = o.optimize(fresh())
            ref = K(C(**case["cfg_kw"])).optimize(fresh())
            if second.model_dump() != ref.model_dump():
                rec["monitors"]["C08"] = "optimize() on an instance used before on an integer-coded task differs from a fresh instance"
        elif sc == "repro_bad":
            outs = []
            for pre in (1, 2):
                np.random.seed(pre)
                np.random.random(3 * pre)
                try:
                    outs.append(repr(K(C(**case["cfg_kw"])).optimize(fresh()).model_dump()))
                except Exception as ex_:  # noqa
                    outs.append(f"{type(ex_).__name__}")
            if outs[0] != outs[1]:
                rec["monitors"]["C07"] = f"two runs with seed {case['seed']} differ (one may have been silently unseeded): {outs[0][:60]} / {outs[1][:60]}"
        elif sc == "reuse_dim":
            # the earlier run was on a task of another dimension: the second call must still be a valid call
            o = K(C(**case["cfg_kw"]))
            o.optimize(fresh(kind="contbig"))
            t2 = fresh()
            second = o.optimize(t2)
            rec["monitors"].update(truth_monitors(t2, case["kind"], second))
            ref = K(C(**case["cfg_kw"])).optimize(fresh())
            if second.model_dump() != ref.model_dump():
                rec["monitors"]["C08"] = "optimize() on an instance used before on a task of another dimension differs from a fresh instance"
        elif sc == "repro0":
            np.random.seed(1)
            a = K(C(**case["cfg_kw"])).optimize(fresh(seed=0))
            np.random.seed(2)
            np.random.random(11)
            b = K(C(**case["cfg_kw"])).optimize(fresh(seed=0))
            if a.model_dump() != b.model_dump():
                rec["monitors"]["C07"] = "two serial runs with seed 0 differ"
        elif sc == "setcfg2":
            # HyperTuner-style reuse: configure, run, re-configure with other values, run: equals a fresh optimizer
            kw1 = dict(case["cfg_kw"])
            kw2 = dict(case["cfg_kw"])
            kw2["population_size"] = int(kw1["population_size"] * 2)
            kw2["max_cycles"] = kw1["max_cycles"] + 2          # the stop criteria are re-configured too
            for k_, v_ in case.get("alt", {}).items():
                kw2[k_] = v_
            try:
                C(**kw2)
            except Exception:
                rec["skip"] = "second configuration rejected"
                return rec
            o = K()
            o.set_config_parameters(dict(kw1))
            o.optimize(fresh())
            o.set_config_parameters(dict(kw2))
            a = o.optimize(fresh())
            b = K(C(**kw2)).optimize(fresh())
            if o.configuration.model_dump() != C(**kw2).model_dump():
                rec["monitors"]["C18"] = "set_config_parameters(d2) != Config(**d2)"
            elif a.model_dump() != b.model_dump():
                sa, sb = [len(g.agents) for g in a.evolution][:4], [len(g.agents) for g in b.evolution][:4]
                rec["monitors"]["C18"] = f"run after a second set_config_parameters differs from a fresh optimizer (sizes {sa} vs {sb})"
                if sa != sb:
                    rec["monitors"]["C10"] = f"generation sizes {sa} after re-configuration, expected {sb}"
                if len(a.rates) != len(b.rates):
                    rec["monitors"]["C04"] = (f"after re-configuration (max_cycles {kw1['max_cycles']} -> {kw2['max_cycles']}) the run executes "
                                              f"{len(a.rates)} cycles, a fresh optimizer {len(b.rates)}")
        elif sc == "duality_reuse":
            o = K(C(**case["cfg_kw"]))
            a = o.optimize(fresh("max"))
            b = o.optimize(fresh("min", neg=True))
            same = len(a.evolution) == len(b.evolution) and all(
                [x.position for x in ga.agents] == [y.position for y in gb.agents] and
                all(x.cost == -y.cost for x, y in zip(ga.agents, gb.agents))
                for ga, gb in zip(a.evolution, b.evolution))
            if not same:
                rec["monitors"]["C12"] = "max f then min -f on the same instance: positions differ / costs are not exact negatives"
        elif sc == "setcfg":
            try:
                o = K()
            except Exception as ex:
                rec["monitors"]["C18"] = f"{case['opt']}() cannot be constructed without a configuration: {type(ex).__name__}: {ex}"
                return rec
            try:
                o.optimize(fresh())
                rec["monitors"]["C18"] = "optimize() without a configuration did not raise ValueError"
            except ValueError:
                pass
            o.set_config_parameters(dict(case["cfg_kw"]))
            if o.configuration.model_dump() != cfg.model_dump():
                rec["monitors"]["C18"] = "set_config_parameters(d) != Config(**d)"
            a = o.optimize(fresh())
            b = K(C(**case["cfg_kw"])).optimize(fresh())
            if a.model_dump() != b.model_dump():
                rec["monitors"]["C18"] = "run after set_config_parameters differs from run of an optimizer built with the config"
        elif sc in ("duality", "duality_nan", "duality_cached"):
            import warnings
            with warnings.catch_warnings():
                warnings.simplefilter("ignore")
                a = K(C(**case["cfg_kw"])).optimize(fresh("max"))
                b = K(C(**case["cfg_kw"])).optimize(fresh("min", neg=True))

            def opp(u, v):      # exact negatives; an undefined value is undefined in both runs
                return (u == -v) or (isinstance(u, float) and isinstance(v, float) and math.isnan(u) and math.isnan(v))
            same = len(a.evolution) == len(b.evolution) and all(
                repr([x.position for x in ga.agents]) == repr([y.position for y in gb.agents]) and
                all(opp(x.cost, y.cost) for x, y in zip(ga.agents, gb.agents))
                for ga, gb in zip(a.evolution, b.evolution))
            if not same:
                rec["monitors"]["C12"] = "max f and min -f visit different positions / costs are not exact negatives"
            elif sc != "duality_nan":       # (ranking undefined values is not symmetric: the reports are compared on defined costs only)
                from pyvolutionary.utils import best_agent_trend
                ta, tb = best_agent_trend(a), best_agent_trend(b)
                if len(ta) != len(tb) or not all(opp(u, v) for u, v in zip(ta, tb)):
                    rec["monitors"]["C12"] = f"best_agent_trend of max f {ta[:3]} is not the negative of that of min -f {tb[:3]}"
                elif _PENALTY != [50.0, 40.0]:
                    rec["monitors"]["C12"] = f"the list returned by the objective was modified by the library: {_PENALTY}"
    except Exception as ex:
        tb = traceback.extract_tb(ex.__traceback__)
        fn = next((f"{os.path.basename(f.filename)}:{f.name}" for f in reversed(tb) if "pyvolutionary" in f.filename), "?")
        rec["exc"] = {"type": type(ex).__name__, "where": fn, "msg": str(ex)[:160]}
    try:
        lines = open(plog.name).read().splitlines()
        os.unlink(plog.name)
    except OSError:
        lines = []
    if lines:
        d = json.loads(lines[0])
        rec["monitors"].setdefault("C05", f"objective called with {d['x']}: {d['msg']} ({len(lines)} such calls, scenario {sc})")
    return rec


def _xproc_digest(case):
    """one seeded serial run on the label-decoding task; a digest of everything the result holds"""
    sys.path.insert(0, REPO)
    import pyvolutionary as pv
    import contextlib, io
    K = getattr(pv, case["opt"])
    C = getattr(pv, case["cfg_name"])
    try:
        task, _ = make_task("labeldec", case["direction"], case["seed"])
        with contextlib.redirect_stdout(io.StringIO()):
            res = K(C(**case["cfg_kw"])).optimize(task)
        return hashlib.sha256(repr(res.model_dump()).encode()).hexdigest()[:16]
    except Exception as ex:  # noqa
        return f"exception {type(ex).__name__}"


def run_xproc(cases, hashseeds=("1", "2")):
    """the same seeded runs in fresh interpreter processes that differ only in PYTHONHASHSEED (C07: 'in the same or in
    different processes'); one child per hash seed handles all the cases"""
    import subprocess, tempfile
    with tempfile.NamedTemporaryFile("w", suffix=".json", delete=False) as f:
        json.dump(cases, f, default=str)
    outs = []
    procs = [subprocess.Popen([sys.executable, "-m", "pyvc.bnd", "--xproc-child", f.name], cwd=VERIF, stdout=subprocess.PIPE, text=True,
                              env=dict(os.environ, PYTHONHASHSEED=h, PYVC_REPO=REPO)) for h in hashseeds]
    for p_ in procs:
        o = p_.communicate(timeout=3000)[0]
        outs.append(json.loads(o.strip().splitlines()[-1]) if o.strip() else None)
    os.unlink(f.name)
    recs = []
    for i, case in enumerate(cases):
        rec = {"case": {k: case[k] for k in case if k != "cfg_kw"}, "monitors": {}, "exc": None}
        if any(o is None for o in outs):
            rec["harness_error"] = "xproc child produced no output"
        else:
            ds = [o[i] for o in outs]
            if len(set(ds)) > 1:
                rec["monitors"]["C07"] = ("the same seeded run differs between two processes with different PYTHONHASHSEED "
                                          f"(task with string labels decoded by transform_solution): {ds}")
        recs.append(rec)
    return recs


CASE_TIMEOUT_S = 90


class CaseTimeout(BaseException):
    pass


def run_fresh_process(cases):
    """process-mode runs as the very first use of multiprocessing in a fresh interpreter (what a user's script does): the
    initial population must not contain exact duplicates (workers replaying the parent's random stream)"""
    import subprocess, tempfile
    with tempfile.NamedTemporaryFile("w", suffix=".json", delete=False) as f:
        json.dump(cases, f, default=str)
    p_ = subprocess.run([sys.executable, "-m", "pyvc.bnd", "--fresh-process-child", f.name], cwd=VERIF, capture_output=True, text=True,
                        env=dict(os.environ, PYVC_REPO=REPO), timeout=900)
    os.unlink(f.name)
    try:
        outs = json.loads(p_.stdout.strip().splitlines()[-1])
    except Exception:  # noqa
        outs = None
    recs = []
    for i, case in enumerate(cases):
        rec = {"case": {k: case[k] for k in case if k != "cfg_kw"}, "monitors": {}, "exc": None, "initial_duplicates": 0}
        if outs is None:
            rec["harness_error"] = "fresh-process child produced no output: " + (p_.stderr or "")[-200:]
        elif isinstance(outs[i], str):
            rec["exc"] = {"type": outs[i], "where": "?", "msg": "in a fresh interpreter"}
        else:
            rec["initial_duplicates"] = outs[i]
        recs.append(rec)
    return recs


def _fresh_process_child(path):
    sys.path.insert(0, REPO)
    import pyvolutionary as pv
    import contextlib, io
    outs = []
    for case in json.load(open(path)):
        try:
            task, _ = make_task(case["kind"], case["direction"], case["seed"])
            with contextlib.redirect_stdout(io.StringIO()):
                res = getattr(pv, case["opt"])(getattr(pv, case["cfg_name"])(**case["cfg_kw"])).optimize(task, mode="process", workers=case["workers"])
            pos0 = [tuple(map(repr, a.position)) for a in res.evolution[0].agents]
            outs.append(len(pos0) - len(set(pos0)))
        except Exception as ex:  # noqa
            outs.append(type(ex).__name__)
    print(json.dumps(outs))


def _dispatch(case):
    """one case under a wall-clock limit: a run that does not come back is recorded as such (optimize() must terminate)"""
    import signal

    def on_alarm(signum, frame):
        raise CaseTimeout()
    old_handler = None
    try:
        old_handler = signal.signal(signal.SIGALRM, on_alarm)
        # (configurations below the documented scale are only looked at when they complete: a short limit is enough)
        signal.alarm(10 if str(case.get("scale", "")).startswith("small") else CASE_TIMEOUT_S)
    except ValueError:          # not in the main thread of the process: no limit available
        old_handler = None
    try:
        return _dispatch_inner(case)
    except CaseTimeout:
        return {"case": {k: case[k] for k in case if k != "cfg_kw"}, "monitors": {}, "evals": 0,
                "cycles_budget": case["cfg_kw"].get("max_cycles"),
                "exc": {"type": "Timeout", "where": "optimize", "msg": f"the run did not finish within {CASE_TIMEOUT_S} s"}}
    finally:
        if old_handler is not None:
            signal.alarm(0)
            signal.signal(signal.SIGALRM, old_handler)


def _dispatch_inner(case):
    try:
        if case.get("scenario") == "xproc":
            return run_xproc([case])[0]
        if case.get("scenario") == "fresh_process":
            return run_fresh_process([case])[0]
        if case.get("scenario") in ("repro", "reuse", "setcfg", "duality", "reuse2", "repro0", "setcfg2", "duality_reuse", "reuse3", "reuse_dim", "duality_nan", "reuse_int", "repro_bad", "duality_cached"):
            return run_pair(case)
        return run_case(case)
    except Exception as ex:  # harness failure
        return {"case": {k: case[k] for k in case if k != "cfg_kw"}, "monitors": {}, "exc": None,
                "harness_error": f"{type(ex).__name__}: {ex}"}


# ---- campaign ----------------------------------------------------------------------------------------------------------------------------------------------
CONT = ["cont3", "cont1", "contbig", "multiobj", "cont3b", "cont3c", "plateau", "multi1", "multi1b"]
INTCODED = ["discrete", "binary", "mixed", "perm"]


def build_cases(tier, seed):
    cfgs = harvest_configs()
    cases = []
    seeds = [seed + 1, seed + 2] if tier == "quick" else [seed + i for i in range(1, 6)]
    for opt, (cfg_name, kw0) in sorted(cfgs.items()):
        base = dict(kw0)
        base["fitness_error"] = None
        base.pop("early_stopping", None)
        scales = [1.0] if tier == "quick" else [1.0, 1.5, 2.0, 3.0]
        cycles = [1, 3] if tier == "quick" else [1, 2, 5]
        for kind in ["cont3", "cont1", "contbig", "multiobj", "plateau"] + (["discrete", "perm"] if tier == "quick" else INTCODED):
            for direction in ("min", "max"):
                for mc in cycles:
                    for sc in scales:
                        for sd in (seeds[:1] if (mc == 1 or kind in INTCODED or sc != 1.0) else seeds):
                            kw = dict(base, max_cycles=mc, population_size=int(base["population_size"] * sc))
                            cases.append(dict(opt=opt, cfg_name=cfg_name, cfg_kw=kw, kind=kind, direction=direction, seed=sd,
                                              mode=None, scenario="single", scale=sc))
        # integer-coded tasks, a longer budget (a population that collapses onto one point needs a few cycles to do so)
        for kind in (["discrete", "perm", "binary"] if tier == "quick" else INTCODED):
            for direction in ("min", "max"):
                for sd in seeds[:2]:
                    cases.append(dict(opt=opt, cfg_name=cfg_name, cfg_kw=dict(base, max_cycles=10), kind=kind, direction=direction, seed=sd,
                                      mode=None, scenario="single", scale=1.0))
        # stopping options
        for extra in (dict(fitness_error=0.5), dict(fitness_error=None, early_stopping=dict(patience=2, min_delta=0.5)),
                      dict(fitness_error=1e-9, early_stopping=dict(patience=1, min_delta=1e-3)),
                      # criteria the model accepts as None (C06: accepted by the validators; C09: the object must stay as given)
                      dict(fitness_error=None, early_stopping=dict(patience=None, min_delta=0.5)),
                      dict(fitness_error=None, early_stopping=dict(patience=2, min_delta=None))):
            kw = dict(base, max_cycles=6, **extra)
            cases.append(dict(opt=opt, cfg_name=cfg_name, cfg_kw=kw, kind="cont3", direction="min", seed=seeds[0], mode=None,
                              scenario="single", scale=1.0, stopping=json.dumps(extra)))
        # pooled modes
        for mode, workers in (("thread", 2), ("process", 2)) if tier == "quick" else (("thread", 1), ("thread", 4), ("process", 2), ("process", 4)):
            kw = dict(base, max_cycles=2)
            cases.append(dict(opt=opt, cfg_name=cfg_name, cfg_kw=kw, kind="cont3", direction="min", seed=seeds[0], mode=mode,
                              workers=workers, scenario="single", scale=1.0))
        # more workers than agents (a pool must cope with idle workers)
        if tier != "quick" or len({c_["opt"] for c_ in cases}) <= 8:
            kw = dict(base, max_cycles=2)
            cases.append(dict(opt=opt, cfg_name=cfg_name, cfg_kw=kw, kind="cont3", direction="min", seed=seeds[0], mode="process",
                              workers=base["population_size"] + 1, scenario="single", scale=1.0))

        # wide thread pools (worker counts that do not divide the population), ties in pooled mode (plateau objective)
        for w_ in (7, 16):
            cases.append(dict(opt=opt, cfg_name=cfg_name, cfg_kw=dict(base, max_cycles=2), kind="cont3", direction="min", seed=seeds[0],
                              mode="thread", workers=w_, scenario="single", scale=1.0))
        cases.append(dict(opt=opt, cfg_name=cfg_name, cfg_kw=dict(base, max_cycles=4), kind="plateau", direction="min", seed=seeds[0],
                          mode="thread", workers=3, scenario="single", scale=1.0))
        # an instance used before on another task, with early stopping configured (the rate history must start afresh)
        cases.append(dict(opt=opt, cfg_name=cfg_name, cfg_kw=dict(base, max_cycles=6, early_stopping=dict(patience=1, min_delta=0.5)),
                          kind="cont3", direction="min", seed=seeds[0], mode=None, scenario="reuse2", scale=1.0, stopping="es"))
        cases.append(dict(opt=opt, cfg_name=cfg_name, cfg_kw=dict(base, max_cycles=6, early_stopping=dict(patience=1, min_delta=0.5)),
                          kind="cont3", direction="min", seed=seeds[0], mode=None, scenario="reuse3", scale=1.0, stopping="es"))
        # an earlier run of exactly one cycle; an earlier run on an integer-coded task of the same dimension
        cases.append(dict(opt=opt, cfg_name=cfg_name, cfg_kw=dict(base, max_cycles=1), kind="cont3", direction="min", seed=seeds[0], mode=None,
                          scenario="reuse", scale=1.0, stopping="mc1"))
        cases.append(dict(opt=opt, cfg_name=cfg_name, cfg_kw=dict(base, max_cycles=3), kind="cont3", direction="min", seed=seeds[0], mode=None,
                          scenario="reuse_int", scale=1.0))
        # integer seeds that numpy refuses: two runs are refused alike or agree
        for bad_seed in (-5, 2 ** 32):
            cases.append(dict(opt=opt, cfg_name=cfg_name, cfg_kw=dict(base, max_cycles=2), kind="cont3", direction="min", seed=bad_seed, mode=None,
                              scenario="repro_bad", scale=1.0))
        # relational scenarios
        for scn in ("repro", "reuse", "setcfg", "duality", "reuse2", "repro0", "setcfg2", "duality_reuse", "reuse3", "reuse_dim"):
            kw = dict(base, max_cycles=3)
            cases.append(dict(opt=opt, cfg_name=cfg_name, cfg_kw=kw, kind="cont3", direction="min", seed=seeds[0], mode=None,
                              scenario=scn, scale=1.0))
        cases.append(dict(opt=opt, cfg_name=cfg_name, cfg_kw=dict(base, max_cycles=3), kind="nanobj", direction="min", seed=seeds[0], mode=None,
                          scenario="duality_nan", scale=1.0))
        cases.append(dict(opt=opt, cfg_name=cfg_name, cfg_kw=dict(base, max_cycles=3), kind="multiobjc", direction="min", seed=seeds[0], mode=None,
                          scenario="duality_cached", scale=1.0))
        for direction in ("min", "max"):
            cases.append(dict(opt=opt, cfg_name=cfg_name, cfg_kw=dict(base, max_cycles=3), kind="infpen", direction=direction, seed=seeds[0],
                              mode=None, scenario="single", scale=1.0))
        # re-configuration that changes one algorithm parameter and keeps the population size
        for pname, pval in sorted(base.items()):
            if pname in ("population_size", "max_cycles", "fitness_error") or isinstance(pval, bool) or not isinstance(pval, int):
                continue
            for alt in (max(1, pval // 2), pval + 1):
                if alt != pval:
                    cases.append(dict(opt=opt, cfg_name=cfg_name, cfg_kw=dict(base, max_cycles=3), kind="cont3", direction="min",
                                      seed=seeds[0], mode=None, scenario="setcfg2", scale=1.0, alt={pname: alt, "population_size": base["population_size"]}))
        cases.append(dict(opt=opt, cfg_name=cfg_name, cfg_kw=dict(base, max_cycles=3), kind="perm", direction="min", seed=seeds[0],
                          mode=None, scenario="repro", scale=1.0))
        cases.append(dict(opt=opt, cfg_name=cfg_name, cfg_kw=dict(base, max_cycles=3), kind="labeldec", direction="min", seed=seeds[0],
                          mode=None, scenario="xproc", scale=1.0))
        # population sizes above the documented scale, debug logging, rejected calls
        if tier == "quick":
            for sc_ in (1.5, 3.0):
                kw = dict(base, max_cycles=3, population_size=int(base["population_size"] * sc_))
                cases.append(dict(opt=opt, cfg_name=cfg_name, cfg_kw=kw, kind="cont3", direction="min", seed=seeds[0], mode=None,
                                  scenario="single", scale=sc_))
        # sizes that are not multiples of the usual group counts (residual groups of one or two agents)
        for extra_n in (1, 2, 3):
            for direction in ("min", "max"):
                for sd in [seeds[0] + extra_n + 10 * j for j in range(8)]:
                    kw = dict(base, max_cycles=8, population_size=base["population_size"] + extra_n)
                    cases.append(dict(opt=opt, cfg_name=cfg_name, cfg_kw=kw, kind="cont3", direction=direction, seed=sd, mode=None,
                                      scenario="single", scale=f"+{extra_n}"))
        # populations well below the documented scale (configurations the validators accept; several optimizers do not run
        # there: only completed runs are looked at, and only for the size and elitism clauses)
        for frac in (0.45, 0.3, 0.15):
            for direction in ("min", "max"):
                for sd in seeds[:2]:
                    n_small = max(2, int(base["population_size"] * frac))
                    cases.append(dict(opt=opt, cfg_name=cfg_name, cfg_kw=dict(base, max_cycles=6, population_size=n_small), kind="cont3",
                                      direction=direction, seed=sd, mode=None, scenario="single", scale=f"small{frac}"))
        for direction in ("min", "max"):
            cases.append(dict(opt=opt, cfg_name=cfg_name, cfg_kw=dict(base, max_cycles=4), kind="cont3", direction=direction, seed=seeds[0],
                              mode=None, scenario="single", scale=1.0, debug=True))
        for kind in ("cont3", "multiobj"):
            cases.append(dict(opt=opt, cfg_name=cfg_name, cfg_kw=dict(base, max_cycles=2), kind=kind, direction="min", seed=seeds[0],
                              mode=None, scenario="rejected", scale=1.0))
        # a task without a seed (the model default): the run is random, only "caller's objects untouched" is looked at
        cases.append(dict(opt=opt, cfg_name=cfg_name, cfg_kw=dict(base, max_cycles=2), kind="cont3", direction="min", seed=seeds[0],
                          mode=None, scenario="noseed", scale=1.0))
        for kind in ("multi1", "multi1b"):
            cases.append(dict(opt=opt, cfg_name=cfg_name, cfg_kw=dict(base, max_cycles=3), kind=kind, direction="min", seed=seeds[0],
                              mode=None, scenario="single", scale=1.0))
    # process mode as the first use of multiprocessing in a fresh interpreter (three optimizers, one interpreter)
    for opt_ in sorted(cfgs)[:3]:
        cfg_name_, kw0_ = cfgs[opt_]
        b_ = dict(kw0_, fitness_error=None, max_cycles=1)
        b_.pop("early_stopping", None)
        cases.append(dict(opt=opt_, cfg_name=cfg_name_, cfg_kw=b_, kind="cont3", direction="min", seed=seed + 1, mode="process", workers=4,
                          scenario="fresh_process", scale=1.0))
    for c_ in cases:        # budget and size are part of a case's identity (replay finds the case by these keys)
        c_["mc"] = c_["cfg_kw"].get("max_cycles")
        c_["pop"] = c_["cfg_kw"].get("population_size")
    return cases


def campaign(tier="quick", seed=0, procs=None):
    """run (or load from the cache) the campaign for the current tree; returns the list of records"""
    key = _tree_key(tier, seed)
    cpath = os.path.join(VERIF, ".cache", "bnd", key + ".json")
    if os.path.exists(cpath) and not os.environ.get("PYVC_NOCACHE"):
        return json.load(open(cpath))
    cases = build_cases(tier, seed)
    procs = procs or min(16, os.cpu_count() or 4)
    t0 = time.time()
    # process-mode cases start pools themselves: run those in a smaller outer pool
    heavy = [c for c in cases if c.get("mode") == "process" and c.get("scenario") != "fresh_process"]
    xproc = [c for c in cases if c.get("scenario") == "xproc"]
    light = [c for c in cases if c.get("mode") != "process" and c.get("scenario") not in ("xproc", "fresh_process")]
    recs = run_xproc(xproc, ("1", "2") if tier == "quick" else ("1", "2", "3", "4")) if xproc else []
    fresh_cases = [c for c in cases if c.get("scenario") == "fresh_process"]
    if fresh_cases:
        recs += run_fresh_process(fresh_cases)
    with ProcessPoolExecutor(procs) as ex:
        recs += list(ex.map(_dispatch, light, chunksize=4))
    with ProcessPoolExecutor(max(2, procs // 4)) as ex:
        recs += list(ex.map(_dispatch, heavy, chunksize=4))
    out = {"tier": tier, "seed": seed, "wall": round(time.time() - t0, 1), "records": recs}
    os.makedirs(os.path.dirname(cpath), exist_ok=True)
    json.dump(out, open(cpath, "w"), default=str)
    try:
        ents = sorted((os.path.join(os.path.dirname(cpath), x) for x in os.listdir(os.path.dirname(cpath))), key=os.path.getmtime, reverse=True)
        for old in ents[24:]:
            os.unlink(old)
    except OSError:
        pass
    return out


def _tree_key(tier, seed):
    h = hashlib.sha256()
    h.update(f"{tier}:{seed}".encode())
    for f in sorted(glob.glob(os.path.join(REPO, "pyvolutionary", "**", "*.py"), recursive=True)):
        h.update(open(f, "rb").read())
    h.update(open(__file__, "rb").read())
    for f in sorted(glob.glob(os.path.join("/repo", "tests", "algorithms", "test_*.py"))):
        h.update(open(f, "rb").read())
    return h.hexdigest()[:24]


if __name__ == "__main__" and len(sys.argv) > 2 and sys.argv[1] == "--fresh-process-child":
    _fresh_process_child(sys.argv[2])
    sys.exit(0)

if __name__ == "__main__" and len(sys.argv) > 2 and sys.argv[1] == "--xproc-child":
    with ProcessPoolExecutor(4) as ex_:
        print(json.dumps(list(ex_.map(_xproc_digest, json.load(open(sys.argv[2])), chunksize=4))))
    sys.exit(0)

if __name__ == "__main__":
    tier = sys.argv[1] if len(sys.argv) > 1 else "quick"
    out = campaign(tier, 0)
    recs = out["records"]
    print("cases", len(recs), "wall", out["wall"])
    import collections
    c = collections.Counter()
    for r in recs:
        for k in r.get("monitors", {}):
            c[k] += 1
        if r.get("exc"):
            c["exc"] += 1
        if r.get("harness_error"):
            c["harness"] += 1
    print(c)
