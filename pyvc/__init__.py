"""pyvc - verification-condition generator for the real source of /repo/pyvolutionary.

Bodies are re-read from the working tree on every run (pyvc.source); contracts live in /verif/contracts
(sidecar, keyed by qualified name).  See /verif/DESIGN.md section 2.
"""
