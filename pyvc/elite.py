"""ELITE: structural classification of optimizers whose replacement scheme is purely greedy / elitist (C17).

A class is on the list when every way its `optimization_step` (and `after_initialization`) replaces the population is one
of the elitist forms below; the per-form argument (best cost never gets worse) rests on the kernel contracts of
_greedy_select_agent (result is the challenger only if strictly cheaper, else a copy of the incumbent),
_greedy_select_population, _extend_and_trim_population and sort_and_trim (keeps the cheapest)."""
from __future__ import annotations
import ast
from .source import Source

BASE = "pyvolutionary.abstract.OptimizationAbstract"


def _is_self_pop(n):
    return isinstance(n, ast.Attribute) and n.attr == "_population" and isinstance(n.value, ast.Name) and n.value.id == "self"


def _greedy_call(node):
    return isinstance(node, ast.Call) and isinstance(node.func, ast.Attribute) and node.func.attr == "_greedy_select_agent" \
        and isinstance(node.func.value, ast.Name) and node.func.value.id == "self"


def _accepted(v, agent_params, fdef, nested, depth=0):
    """is the expression (an agent) never worse than the incumbent?"""
    if v is None or depth > 4:
        return False
    if isinstance(v, ast.Name):
        if v.id in agent_params:
            return True
        # a local bound only to accepted expressions
        binds = [n.value for n in ast.walk(fdef) if isinstance(n, ast.Assign) and len(n.targets) == 1 and
                 isinstance(n.targets[0], ast.Name) and n.targets[0].id == v.id]
        others = [n for n in ast.walk(fdef) if isinstance(n, (ast.AugAssign, ast.For)) and
                  any(isinstance(x, ast.Name) and x.id == v.id and isinstance(x.ctx, ast.Store) for x in ast.walk(n.target))]
        return bool(binds) and not others and all(_accepted(b_, agent_params, fdef, nested, depth + 1) for b_ in binds)
    if isinstance(v, ast.IfExp):
        return _accepted(v.body, agent_params, fdef, nested, depth + 1) and _accepted(v.orelse, agent_params, fdef, nested, depth + 1)
    if _greedy_call(v) and len(v.args) == 2:
        for a in v.args:
            if isinstance(a, ast.Name) and a.id in agent_params:
                return True
            if isinstance(a, ast.Subscript) and _is_self_pop(a.value):
                return True
            if _accepted(a, agent_params, fdef, nested, depth + 1) and not isinstance(a, ast.Call):
                return True
        return False
    if isinstance(v, ast.Call) and isinstance(v.func, ast.Name) and v.func.id in nested:
        g = nested[v.func.id]
        params = [a.arg for a in g.args.args]
        ap = {params[i] for i, a in enumerate(v.args) if i < len(params) and _accepted(a, agent_params, fdef, nested, depth + 1)
              and isinstance(a, ast.Name)}
        return bool(ap) and _func_returns_greedy(g, ap, nested, depth + 1)[0]
    return False


def _func_returns_greedy(fdef, agent_params, nested=None, depth=0):
    """every return of the nested function is never worse than the incumbent (see _accepted)"""
    nested = nested or {}
    rets = [n for n in ast.walk(fdef) if isinstance(n, ast.Return)]
    if not rets or not agent_params:
        return False, "no return / incumbent not passed"
    for r in rets:
        if not _accepted(r.value, agent_params, fdef, nested, depth):
            return False, f"line {r.lineno}: returns {ast.unparse(r.value)[:60] if r.value is not None else None}"
    return True, ""


def classify_class(ci):
    step = ci.methods.get("optimization_step")
    if step is None:
        return False, "no optimization_step"
    nested = {n.name: n for n in ast.walk(step) if isinstance(n, ast.FunctionDef) and n is not step}
    reasons = []
    replaced = 0
    for node in ast.walk(step):
        # mutations of the population in place
        if isinstance(node, ast.Assign):
            for t in node.targets:
                if isinstance(t, ast.Subscript) and _is_self_pop(t.value):
                    v = node.value
                    if _greedy_call(v) and isinstance(v.args[0], ast.Subscript) and _is_self_pop(v.args[0].value) and \
                            ast.unparse(v.args[0].slice) == ast.unparse(t.slice):
                        replaced += 1
                        continue
                    reasons.append(f"line {node.lineno}: in-place replacement {ast.unparse(node)[:70]}")
                if _is_self_pop(t):
                    replaced += 1
                    v = node.value
                    if isinstance(v, ast.ListComp) and len(v.generators) == 1:
                        g = v.generators[0]
                        it = g.iter
                        over_pop = _is_self_pop(it) or (isinstance(it, ast.Call) and isinstance(it.func, ast.Name) and
                                                        it.func.id == "enumerate" and it.args and _is_self_pop(it.args[0]))
                        if not over_pop or g.ifs:
                            reasons.append(f"line {node.lineno}: population rebuilt from {ast.unparse(it)[:40]}")
                            continue
                        loop_agent = g.target.elts[-1].id if isinstance(g.target, ast.Tuple) else getattr(g.target, "id", None)
                        e = v.elt
                        if isinstance(e, ast.Call) and isinstance(e.func, ast.Name) and e.func.id in nested:
                            f = nested[e.func.id]
                            # which parameter receives the loop agent
                            params = [a.arg for a in f.args.args]
                            ap = {params[i] for i, a in enumerate(e.args) if isinstance(a, ast.Name) and a.id == loop_agent and i < len(params)}
                            ok, why = _func_returns_greedy(f, ap, nested)
                            if not ok:
                                reasons.append(f"{e.func.id}: {why}")
                        elif _accepted(e, {loop_agent}, step, nested):
                            pass
                        else:
                            reasons.append(f"line {node.lineno}: element {ast.unparse(e)[:60]} is not a greedy selection")
                    elif isinstance(v, ast.Call) and isinstance(v.func, ast.Name) and v.func.id in ("sort_by_cost",) and \
                            v.args and _is_self_pop(v.args[0]):
                        pass
                    else:
                        reasons.append(f"line {node.lineno}: self._population = {ast.unparse(v)[:60]}")
        if isinstance(node, ast.Call) and isinstance(node.func, ast.Attribute) and isinstance(node.func.value, ast.Name) and \
                node.func.value.id == "self":
            if node.func.attr in ("_greedy_select_population", "_extend_and_trim_population"):
                replaced += 1
            elif node.func.attr == "_replace_and_trim_population":
                reasons.append(f"line {node.lineno}: population replaced wholesale")
        if isinstance(node, ast.Call) and isinstance(node.func, ast.Attribute) and _is_self_pop(node.func.value) and \
                node.func.attr in ("append", "extend", "pop", "remove", "clear", "insert", "sort"):
            reasons.append(f"line {node.lineno}: self._population.{node.func.attr}(...)")
        if isinstance(node, ast.Delete):
            for t in node.targets:
                if isinstance(t, ast.Subscript) and _is_self_pop(t.value):
                    reasons.append(f"line {node.lineno}: del self._population[...]")
    # overridden greedy selection must still refine the base contract: checked by name (Bat, BeeColony refine it)
    g = ci.methods.get("_greedy_select_agent")
    if g is not None:
        src = ast.unparse(g)
        if "new_agent.cost < agent" not in src:
            reasons.append("_greedy_select_agent override does not compare new_agent.cost < agent.cost")
    for h in ("after_initialization", "before_initialization", "_init_population", "_extend_and_trim_population",
              "_greedy_select_population", "_replace_and_trim_population"):
        pass
    if replaced == 0:
        reasons.append("optimization_step never replaces the population through a recognised form")
    return (not reasons), ("every replacement of the population is a greedy selection / elitist merge" if not reasons else "; ".join(reasons[:3]))


def classify(src: Source | None = None):
    src = src or Source()
    return {ci.name: classify_class(ci) for ci in src.subclasses_of(BASE)}


if __name__ == "__main__":
    r = classify()
    el = sorted(k for k, v in r.items() if v[0])
    print(len(el), "structurally elitist:", el)
    for k, v in sorted(r.items()):
        if not v[0]:
            print("  -", k, v[1][:150])


# ---- LEN: structural classification of steps that conserve the population size (C10) ---------------------------------------------
def _len_preserving_iter(it, aliases):
    """the iterable has exactly as many items as the population (or population_size, equal by the fixed-size invariant)"""
    if _is_self_pop(it):
        return True
    if isinstance(it, ast.Name) and it.id in aliases.get("pop", set()):
        return True
    if isinstance(it, ast.Call) and isinstance(it.func, ast.Name):
        if it.func.id == "enumerate" and it.args and (_is_self_pop(it.args[0]) or (isinstance(it.args[0], ast.Name) and it.args[0].id in aliases.get("pop", set()))):
            return True
        if it.func.id == "zip" and it.args and any(_is_self_pop(a) for a in it.args):
            return False       # zip truncates to the shortest: not accepted syntactically
        if it.func.id == "range":
            hi = it.args[-1] if len(it.args) <= 2 else None
            lo_ok = len(it.args) == 1 or (isinstance(it.args[0], ast.Constant) and it.args[0].value == 0)
            return lo_ok and hi is not None and _is_size_expr(hi, aliases)
    return False


def _is_size_expr(e, aliases):
    s = ast.unparse(e)
    if s in ("len(self._population)", "self._config.population_size"):
        return True
    return isinstance(e, ast.Name) and e.id in aliases.get("size", set())


def classify_len_class(ci):
    reasons = []
    forms = 0
    for hname in ("optimization_step", "after_initialization"):
        step = ci.methods.get(hname)
        if step is None:
            continue
        aliases = {"size": set(), "pop": set()}
        for node in ast.walk(step):
            if isinstance(node, ast.Assign) and len(node.targets) == 1:
                t = node.targets[0]
                names = [x.id for x in (t.elts if isinstance(t, ast.Tuple) else [t]) if isinstance(x, ast.Name)]
                vals = node.value.elts if isinstance(node.value, ast.Tuple) and isinstance(t, ast.Tuple) else [node.value] * len(names)
                for n_, v_ in zip(names, vals):
                    if _is_size_expr(v_, {"size": set()}):
                        aliases["size"].add(n_)
        for node in ast.walk(step):
            if isinstance(node, ast.Assign):
                for t in node.targets:
                    if _is_self_pop(t):
                        forms += 1
                        v = node.value
                        if isinstance(v, ast.ListComp) and len(v.generators) == 1 and not v.generators[0].ifs and \
                                _len_preserving_iter(v.generators[0].iter, aliases):
                            continue
                        if isinstance(v, ast.Call) and isinstance(v.func, ast.Name) and v.func.id in ("sort_by_cost", "sorted") and v.args and _is_self_pop(v.args[0]):
                            continue
                        if isinstance(v, ast.Call) and isinstance(v.func, ast.Name) and v.func.id == "sort_and_trim" and len(v.args) == 2 and \
                                _is_size_expr(v.args[1], aliases) and "self._population" in ast.unparse(v.args[0]) and \
                                isinstance(v.args[0], (ast.BinOp, ast.Attribute)):
                            continue
                        reasons.append(f"{hname} line {node.lineno}: self._population = {ast.unparse(v)[:60]}")
                    elif isinstance(t, ast.Subscript) and _is_self_pop(t.value) and not isinstance(t.slice, ast.Slice):
                        forms += 1
            if isinstance(node, ast.Call) and isinstance(node.func, ast.Attribute):
                if isinstance(node.func.value, ast.Name) and node.func.value.id == "self":
                    if node.func.attr in ("_greedy_select_population", "_extend_and_trim_population"):
                        forms += 1
                    elif node.func.attr == "_replace_and_trim_population":
                        reasons.append(f"{hname} line {node.lineno}: population replaced by a list of unknown length")
                if _is_self_pop(node.func.value) and node.func.attr in ("append", "extend", "pop", "remove", "clear", "insert"):
                    reasons.append(f"{hname} line {node.lineno}: self._population.{node.func.attr}(...)")
            if isinstance(node, ast.Delete) and any(isinstance(t, ast.Subscript) and _is_self_pop(t.value) for t in node.targets):
                reasons.append(f"{hname} line {node.lineno}: del self._population[...]")
            if isinstance(node, ast.AugAssign) and _is_self_pop(node.target):
                reasons.append(f"{hname} line {node.lineno}: self._population {type(node.op).__name__}= ...")
    if ci.methods.get("_init_population") is not None or ci.methods.get("_generate_agents") is not None:
        reasons.append("overrides _init_population")
    if forms == 0 and not reasons:
        reasons.append("no recognised update of the population")
    return (not reasons), ("every update of the population keeps its length (unfiltered comprehension over the population, greedy / "
                           "elitist kernel helper, in-place replacement, re-sort)" if not reasons else "; ".join(reasons[:3]))


def classify_len(src: Source | None = None):
    src = src or Source()
    return {ci.name: classify_len_class(ci) for ci in src.subclasses_of(BASE)}
