"""Specification vocabulary (symbolic side).  The plain-python side lives in pyvc/runtime_spec.py."""
from __future__ import annotations
import z3

from .types import ENUM_MEMBERS, is_ref
from .state import V, NONE, State, Unsupported, static, is_static
from .builtins import BuiltinMixin


def _b(z):
    return V(("bool",), z)


def _rev_of(eng, st, tt: V):
    """task_type == TaskType.MAX (task_type may be None -> ascending)"""
    if tt.t[0] == "none":
        return z3.BoolVal(False)
    if tt.t[0] == "bool":
        return tt.z
    r = tt.z == ENUM_MEMBERS["TaskType"]["MAX"]
    if tt.none is not None:
        r = z3.And(z3.Not(tt.none), r)
    return r


def _cost_keys(eng, st, pop: V):
    cost = st.map("f_cost", eng.ctx.fsort())
    el = st.seq_elems(pop)
    probe = z3.Int("ki")
    return eng.keys_array(st, cost[el[probe]].sexpr(), lambda i: cost[el[i]], eng.ctx.fsort())


def sf_sigma(eng, st, args, kw, node):
    pop, tt, k = args
    inst = eng.sigma_instance(st, _cost_keys(eng, st, pop), st.seq_len(pop))
    rev = _rev_of(eng, st, tt)
    return V(("int",), z3.If(rev, inst["desc"][0](k.z), inst["asc"][0](k.z)))


def sf_sigma_inv(eng, st, args, kw, node):
    pop, tt, j = args
    inst = eng.sigma_instance(st, _cost_keys(eng, st, pop), st.seq_len(pop))
    rev = _rev_of(eng, st, tt)
    return V(("int",), z3.If(rev, inst["desc"][1](j.z), inst["asc"][1](j.z)))


def sf_better(eng, st, args, kw, node):
    tt, a, b = args
    rev = _rev_of(eng, st, tt)
    a, b = st.to_float(a).z, st.to_float(b).z
    return _b(z3.If(rev, a > b, a < b))


def sf_fresh(eng, st, args, kw, node):
    v = args[0]
    if eng.old_state is None:
        raise Unsupported("fresh() outside a postcondition")
    if v.t[0] == "tuple":
        return _b(z3.And(*[sf_fresh(eng, st, [x], kw, node).z for x in v.items]))
    return _b(v.z >= eng.old_state.alloc)


def sf_unchanged(eng, st, args, kw, node):
    """the sequence has the same length and the same elements as at function entry"""
    v = args[0]
    o = eng.old_state
    if o is None:
        raise Unsupported("unchanged() outside a postcondition")
    n0, n1 = o.seq_len(v), st.seq_len(v)
    e0, e1 = o.seq_elems(v), st.seq_elems(v)
    i = z3.Int(eng.ctx.fresh_name("u"))
    return _b(z3.And(n0 == n1, z3.ForAll([i], z3.Implies(z3.And(i >= 0, i < n0), e0[i] == e1[i]), patterns=[e1[i]])))


def sf_heap_unchanged(eng, st, args, kw, node):
    """every field of every object that existed at entry is unchanged (the function is pure w.r.t. objects)"""
    o = eng.old_state
    if o is None:
        raise Unsupported("heap_unchanged() outside a postcondition")
    conj = []
    fields = [a.items if False else a for a in args]
    names = set(st.heap) | set(o.heap)
    for name in sorted(names):
        if not (name.startswith("f_") or name.startswith("fnone_")):
            continue
        m1 = st.heap.get(name)
        m0 = o.heap.get(name)
        if m1 is None or m0 is None:
            if m0 is None and m1 is not None:
                m0 = z3.Const(name + "0", m1.sort())
            else:
                continue
        if m0.get_id() == m1.get_id():
            continue
        x = z3.Int(eng.ctx.fresh_name("o"))
        conj.append(z3.ForAll([x], z3.Implies(z3.And(x >= 0, x < o.alloc), m0[x] == m1[x]), patterns=[m1[x]]))
    return _b(z3.And(*conj) if conj else z3.BoolVal(True))


def sf_is_max(eng, st, args, kw, node):
    return _b(_rev_of(eng, st, args[0]))


def sf_ite(eng, st, args, kw, node):
    c, a, b = args
    cz = eng.truth(st, c)
    if a.t != b.t:
        raise Unsupported("ite branches of different type")
    return V(a.t, z3.If(cz, a.z, b.z))


def sf_imin(eng, st, args, kw, node):
    a, b = args
    return V(("int",), z3.If(a.z < b.z, a.z, b.z))


def sf_imax(eng, st, args, kw, node):
    a, b = args
    return V(("int",), z3.If(a.z > b.z, a.z, b.z))


BuiltinMixin.SPEC_FUNCS.update({
    "sigma": sf_sigma, "sigma_inv": sf_sigma_inv, "better": sf_better, "fresh": sf_fresh,
    "unchanged": sf_unchanged, "heap_unchanged": sf_heap_unchanged, "is_max": sf_is_max, "ite": sf_ite,
    "imin": sf_imin, "imax": sf_imax,
})


def sf_argsort_pos(eng, st, args, kw, node):
    from .library import argsort_instance
    pop, tt, j = args
    K, n = _cost_keys(eng, st, pop), st.seq_len(pop)
    sig, inv = argsort_instance(eng, st, K, n)
    rev = _rev_of(eng, st, tt)
    return V(("int",), z3.If(rev, n - 1 - inv(j.z), inv(j.z)))


def sf_completion(eng, st, args, kw, node):
    from .library import completion_instance
    fs, k = args
    pi, inv = completion_instance(eng, st, fs)
    return V(("int",), pi(k.z))


def sf_completion_inv(eng, st, args, kw, node):
    from .library import completion_instance
    fs, j = args
    pi, inv = completion_instance(eng, st, fs)
    return V(("int",), inv(j.z))


def sf_mean(eng, st, args, kw, node):
    from .library import seq_mean
    return seq_mean(eng, st, args[0])


def sf_isnan(eng, st, args, kw, node):
    v = args[0]
    if eng.ctx.float_mode == "fp" and v.t[0] == "float":
        return _b(z3.fpIsNaN(v.z))
    return _b(z3.BoolVal(False))


def sf_isinf(eng, st, args, kw, node):
    v = args[0]
    if eng.ctx.float_mode == "fp" and v.t[0] == "float":
        return _b(z3.fpIsInf(v.z))
    return _b(z3.BoolVal(False))


def sf_user(eng, st, args, kw, node):
    """cost in the user's sign: value for min, -value for max"""
    v, tt = args
    rev = _rev_of(eng, st, tt)
    neg = z3.fpNeg(v.z) if eng.ctx.float_mode == "fp" else -v.z
    return V(("float",), z3.If(rev, neg, v.z))


BuiltinMixin.SPEC_FUNCS.update({
    "argsort_pos": sf_argsort_pos, "completion": sf_completion, "completion_inv": sf_completion_inv, "mean": sf_mean,
    "isnan": sf_isnan, "isinf": sf_isinf, "user": sf_user,
})
