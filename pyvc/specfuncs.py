"""Specification vocabulary (symbolic side).  The plain-python side lives in pyvc/runtime_spec.py."""
from __future__ import annotations
import z3

from .types import ENUM_MEMBERS, is_ref
from .qf import qforall
from .state import V, NONE, State, Unsupported, static, is_static
from .builtins import BuiltinMixin


def _b(z):
    return V(("bool",), z)


def _rev_of(eng, st, tt: V):
    """task_type == TaskType.MAX (task_type may be None -> ascending)"""
    if tt.t[0] == "none":
        return z3.BoolVal(False)
    if tt.t[0] == "bool":
        return tt.z
    r = tt.z == ENUM_MEMBERS["TaskType"]["MAX"]
    if tt.none is not None:
        r = z3.And(z3.Not(tt.none), r)
    return r


def _cost_keys(eng, st, pop: V):
    cost = st.map("f_cost", eng.ctx.fsort())
    el = st.seq_elems(pop)
    probe = z3.Int("ki")
    return eng.keys_array(st, cost[el[probe]].sexpr(), lambda i: cost[el[i]], eng.ctx.fsort())


def sf_sigma(eng, st, args, kw, node):
    pop, tt, k = args
    inst = eng.sigma_instance(st, _cost_keys(eng, st, pop), st.seq_len(pop))
    rev = _rev_of(eng, st, tt)
    return V(("int",), z3.If(rev, inst["desc"][0](k.z), inst["asc"][0](k.z)))


def sf_sigma_inv(eng, st, args, kw, node):
    pop, tt, j = args
    inst = eng.sigma_instance(st, _cost_keys(eng, st, pop), st.seq_len(pop))
    rev = _rev_of(eng, st, tt)
    return V(("int",), z3.If(rev, inst["desc"][1](j.z), inst["asc"][1](j.z)))


def sf_better(eng, st, args, kw, node):
    tt, a, b = args
    rev = _rev_of(eng, st, tt)
    a, b = st.to_float(a).z, st.to_float(b).z
    return _b(z3.If(rev, a > b, a < b))


def sf_fresh(eng, st, args, kw, node):
    v = args[0]
    if eng.old_state is None:
        raise Unsupported("fresh() outside a postcondition")
    if v.t[0] == "tuple":
        return _b(z3.And(*[sf_fresh(eng, st, [x], kw, node).z for x in v.items]))
    return _b(v.z >= eng.old_state.alloc)


def sf_unchanged(eng, st, args, kw, node):
    """the sequence has the same length and the same elements as at function entry"""
    v = args[0]
    o = eng.old_state
    if o is None:
        raise Unsupported("unchanged() outside a postcondition")
    n0, n1 = o.seq_len(v), st.seq_len(v)
    e0, e1 = o.seq_elems(v), st.seq_elems(v)
    i = z3.Int(eng.ctx.fresh_name("u"))
    return _b(z3.And(n0 == n1, qforall([i], z3.Implies(z3.And(i >= 0, i < n0), e0[i] == e1[i]), patterns=[e1[i]])))


def sf_heap_unchanged(eng, st, args, kw, node):
    """every field of every object that existed at entry is unchanged, except the locations named by the string
    arguments ("self.f": field f of self only; "f": field f of any object)"""
    o = eng.old_state
    if o is None:
        raise Unsupported("heap_unchanged() outside a postcondition")
    excl_self, excl_all = set(), set()
    for a in args:
        name = eng.static_str(a)
        if name.startswith("self."):
            excl_self.add(name[5:])
        else:
            excl_all.add(name)
    conj = []
    names = set(st.heap) | set(o.heap)
    for name in sorted(names):
        if not (name.startswith("f_") or name.startswith("fnone_")):
            continue
        fname = name.split("_", 1)[1]
        if fname in excl_all:
            continue
        m1 = st.heap.get(name)
        m0 = o.heap.get(name)
        if m1 is None:
            continue
        if m0 is None:
            m0 = z3.Const(name + "0", m1.sort())
        if m0.get_id() == m1.get_id():
            continue
        x = z3.Int(eng.ctx.fresh_name("o"))
        guard = z3.And(x >= 0, x < o.alloc)
        if fname in excl_self:
            guard = z3.And(guard, x != st.env["self"].z)
        conj.append(qforall([x], z3.Implies(guard, m0[x] == m1[x]), patterns=[m1[x]]))
    return _b(z3.And(*conj) if conj else z3.BoolVal(True))


def sf_is_max(eng, st, args, kw, node):
    return _b(_rev_of(eng, st, args[0]))


def sf_ite(eng, st, args, kw, node):
    c, a, b = args
    cz = eng.truth(st, c)
    if a.t != b.t:
        raise Unsupported("ite branches of different type")
    return V(a.t, z3.If(cz, a.z, b.z))


def sf_imin(eng, st, args, kw, node):
    a, b = args
    return V(("int",), z3.If(a.z < b.z, a.z, b.z))


def sf_imax(eng, st, args, kw, node):
    a, b = args
    return V(("int",), z3.If(a.z > b.z, a.z, b.z))


BuiltinMixin.SPEC_FUNCS.update({
    "sigma": sf_sigma, "sigma_inv": sf_sigma_inv, "better": sf_better, "fresh": sf_fresh,
    "unchanged": sf_unchanged, "heap_unchanged": sf_heap_unchanged, "is_max": sf_is_max, "ite": sf_ite,
    "imin": sf_imin, "imax": sf_imax,
})


def sf_argsort_pos(eng, st, args, kw, node):
    from .library import argsort_instance
    pop, tt, j = args
    K, n = _cost_keys(eng, st, pop), st.seq_len(pop)
    sig, inv = argsort_instance(eng, st, K, n)
    rev = _rev_of(eng, st, tt)
    return V(("int",), z3.If(rev, n - 1 - inv(j.z), inv(j.z)))


def sf_completion(eng, st, args, kw, node):
    from .library import completion_instance
    fs, k = args
    pi, inv = completion_instance(eng, st, fs)
    return V(("int",), pi(k.z))


def sf_completion_inv(eng, st, args, kw, node):
    from .library import completion_instance
    fs, j = args
    pi, inv = completion_instance(eng, st, fs)
    return V(("int",), inv(j.z))


def sf_mean(eng, st, args, kw, node):
    from .library import seq_mean
    return seq_mean(eng, st, args[0])


def sf_isnan(eng, st, args, kw, node):
    v = args[0]
    if eng.ctx.float_mode == "fp" and v.t[0] == "float":
        return _b(z3.fpIsNaN(v.z))
    return _b(z3.BoolVal(False))


def sf_isinf(eng, st, args, kw, node):
    v = args[0]
    if eng.ctx.float_mode == "fp" and v.t[0] == "float":
        return _b(z3.fpIsInf(v.z))
    return _b(z3.BoolVal(False))


def sf_user(eng, st, args, kw, node):
    """cost in the user's sign: value for min, -value for max"""
    v, tt = args
    rev = _rev_of(eng, st, tt)
    neg = z3.fpNeg(v.z) if eng.ctx.float_mode == "fp" else -v.z
    return V(("float",), z3.If(rev, neg, v.z))


BuiltinMixin.SPEC_FUNCS.update({
    "argsort_pos": sf_argsort_pos, "completion": sf_completion, "completion_inv": sf_completion_inv, "mean": sf_mean,
    "isnan": sf_isnan, "isinf": sf_isinf, "user": sf_user,
})


def sf_view_eq(eng, st, args, kw, node):
    a, b = args
    pa, pb = st.read_field(a, "position"), st.read_field(b, "position")
    ca, cb = st.read_field(a, "cost"), st.read_field(b, "cost")
    fa, fb = st.read_field(a, "fitness"), st.read_field(b, "fitness")
    return _b(z3.And(pa.z == pb.z, ca.z == cb.z, fa.z == fb.z))


BuiltinMixin.SPEC_FUNCS.update({"view_eq": sf_view_eq})


def sf_greedy_outcome(eng, st, args, kw, node):
    """o is the outcome of the greedy comparison between incumbent a and challenger b"""
    o, a, b = args
    ca, cb = st.read_field(a, "cost"), st.read_field(b, "cost")
    return _b(z3.If(cb.z < ca.z, o.z == b.z, sf_view_eq(eng, st, [o, a], kw, node).z))


BuiltinMixin.SPEC_FUNCS.update({"greedy_outcome": sf_greedy_outcome})


# ---- task / agent vocabulary (DESIGN §3) ---------------------------------------------------------------------------------
def _uf(name, *sorts):
    return z3.Function(name, *sorts)


def flat_var(task_z, i):
    return _uf("flat", z3.IntSort(), z3.IntSort(), z3.IntSort())(task_z, i)


def dom(var_z, val_z):
    return _uf("Dom", z3.IntSort(), z3.IntSort(), z3.BoolSort())(var_z, val_z)


def sf_flat(eng, st, args, kw, node):
    task, i = args
    return V(("obj", "Variable"), flat_var(task.z, i.z))


def sf_Dom(eng, st, args, kw, node):
    var, val = args
    return _b(dom(var.z, val.z))


def space_of(eng, st, task: V, p: V):
    n = st.seq_len(p)
    el = st.seq_elems(p)
    i = z3.Int(eng.ctx.fresh_name("sp"))
    dim = st.read_field(task, "space_dimension").z
    return z3.And(n == dim, qforall([i], z3.Implies(z3.And(i >= 0, i < n),
                                                    z3.And(dom(flat_var(task.z, i), el[i]), z3.Not(isnanv(el[i])))),
                                    patterns=[el[i]]))


def sf_Space(eng, st, args, kw, node):
    return _b(space_of(eng, st, args[0], args[1]))


def objective(eng, st, task: V, p: V):
    """the user's objective at position p (scalar view): an uninterpreted function of the coordinates"""
    el = st.seq_elems(p)
    return _uf("Fobj", z3.IntSort(), el.sort(), z3.IntSort(), eng.ctx.fsort())(task.z, el, st.seq_len(p))


def sf_F(eng, st, args, kw, node):
    return V(("float",), objective(eng, st, args[0], args[1]))


def fobj_arr(eng, st, task: V, p: V):
    """the values of a list-valued objective at position p: an uninterpreted array-valued function of the coordinates"""
    el = st.seq_elems(p)
    fs = eng.ctx.fsort()
    return _uf("FobjArr", z3.IntSort(), el.sort(), z3.IntSort(), z3.ArraySort(z3.IntSort(), fs))(task.z, el, st.seq_len(p))


def w0_arr(eng, task_z):
    """ghost: the objective weights the task was built with (ValidTask: the list is not mutated afterwards)"""
    return _uf("W0", z3.IntSort(), z3.ArraySort(z3.IntSort(), eng.ctx.fsort()))(task_z)


def nobj_of(task_z):
    return _uf("nobj", z3.IntSort(), z3.IntSort())(task_z)


def weighted(eng, st, task: V, p: V):
    """W(F(p)): the objective itself, or the weight-vector dot product of the objective list"""
    if eng.case_env.get("__obj__", "scalar") == "scalar":
        return objective(eng, st, task, p)      # scalar objective, no weights (ValidTask): W(F) is F
    fa = fobj_arr(eng, st, task, p)
    w0 = w0_arr(eng, task.z)
    eng.ctx.tags.add("AX_numpy_dot_is_a_function_of_the_elements")
    return z3.Function("dot", fa.sort(), w0.sort(), z3.IntSort(), eng.ctx.fsort())(fa, w0, nobj_of(task.z))


def sf_Fk(eng, st, args, kw, node):
    """Fk(task, x, k): the k-th value of the list-valued objective at x"""
    task, x, k = args
    return V(("float",), z3.Select(fobj_arr(eng, st, task, x), k.z))


def sf_weights_are(eng, st, args, kw, node):
    """weights_are(task): the weight list of the task still holds the weights the task was built with (ghost W0)"""
    task = args[0]
    w = st.read_field(task, "objective_weights")
    n = st.seq_len(w)
    el = st.seq_elems(w)
    i = z3.Int(eng.ctx.fresh_name("wk"))
    body = qforall([i], z3.Implies(z3.And(i >= 0, i < n), el[i] == w0_arr(eng, task.z)[i]), patterns=[el[i]])
    if w.none is not None:
        return _b(z3.Or(w.none, body))
    return _b(body)


def sf_WF(eng, st, args, kw, node):
    return V(("float",), weighted(eng, st, args[0], args[1]))


def fit(eng, u):
    """documented fitness of a user-sign cost: 1/(1+c) for c >= 0, 1+|c| otherwise (real mode: 1/(1+c) opaque)"""
    if eng.ctx.float_mode == "fp":
        rm = z3.RNE()
        one = z3.FPVal(1.0, z3.Float64())
        return z3.If(z3.fpGEQ(u, z3.FPVal(0.0, z3.Float64())), z3.fpDiv(rm, one, z3.fpAdd(rm, u, one)),
                     z3.fpAdd(rm, one, z3.fpAbs(u)))
    inv = _uf("fdiv", z3.RealSort(), z3.RealSort(), z3.RealSort())
    return z3.If(u >= 0, inv(z3.RealVal(1), u + 1), 1 + z3.If(u >= 0, u, -u))


def sf_Fit(eng, st, args, kw, node):
    return V(("float",), fit(eng, st.to_float(args[0]).z))


def sf_Valid(eng, st, args, kw, node):
    """Valid(task, a): position in the space, internal cost = sgn * W(F(position)), fitness = Fit(user cost)"""
    task, a = args
    p = st.read_field(a, "position")
    cost = st.read_field(a, "cost").z
    fitn = st.read_field(a, "fitness").z
    ismax = st.read_field(task, "minmax").z == ENUM_MEMBERS["TaskType"]["MAX"]
    wf = weighted(eng, st, task, p)
    return _b(z3.And(space_of(eng, st, task, p), cost == z3.If(ismax, -wf, wf), fitn == fit(eng, wf)))


def sf_nobj(eng, st, args, kw, node):
    """number of values returned by the task's objective function (1 for a scalar objective)"""
    return V(("int",), _uf("nobj", z3.IntSort(), z3.IntSort())(args[0].z))


BuiltinMixin.SPEC_FUNCS.update({"flat": sf_flat, "Dom": sf_Dom, "Space": sf_Space, "F": sf_F, "WF": sf_WF, "Fit": sf_Fit,
                                "Valid": sf_Valid, "nobj": sf_nobj, "Fk": sf_Fk, "weights_are": sf_weights_are})


# ---- structure of a task's variables (C14): sizes, children, flattening ---------------------------------------------------------
def _vsize(v_z):
    return _uf("vsize", z3.IntSort(), z3.IntSort())(v_z)


def _kids(v_z):
    return _uf("kids", z3.IntSort(), z3.BoolSort())(v_z)


def _child(v_z, r):
    return _uf("child", z3.IntSort(), z3.IntSort(), z3.IntSort())(v_z, r)


def sf_vsize(eng, st, args, kw, node):
    return V(("int",), _vsize(args[0].z))


def sf_kids(eng, st, args, kw, node):
    return _b(_kids(args[0].z))


def sf_child(eng, st, args, kw, node):
    return V(("obj", "Variable"), _child(args[0].z, args[1].z))


def _v0(task_z):
    return _uf("V0", z3.IntSort(), z3.ArraySort(z3.IntSort(), z3.IntSort()))(task_z)


def _nv0(task_z):
    return _uf("nV0", z3.IntSort(), z3.IntSort())(task_z)


def _vs_arr(eng, st, task_z):
    """VS(task)[j] = vsize(V0(task)[j]) (canonical array)"""
    return eng.keys_array(st, "VS:" + task_z.sexpr(), lambda x: _vsize(z3.Select(_v0(task_z), x)), z3.IntSort())


def sf_off(eng, st, args, kw, node):
    """off(task, j): the first coordinate of the j-th declared variable = sum of the sizes of the variables before it"""
    f, _ = eng.fsum_fn()
    eng.fsum_axioms(st)
    return V(("int",), f(_vs_arr(eng, st, args[0].z), args[1].z))


def sf_sumsizes(eng, st, args, kw, node):
    """sumsizes(vs): sum of vsize(v) over a list of variables"""
    f, _ = eng.fsum_fn()
    eng.fsum_axioms(st)
    el = st.seq_elems(args[0])
    K = eng.keys_array(st, "sumsizes:" + el.sexpr(), lambda x: _vsize(z3.Select(el, x)), z3.IntSort())
    return V(("int",), f(K, st.seq_len(args[0])))


BuiltinMixin.SPEC_FUNCS.update({"sumsizes": sf_sumsizes})


def sf_has_negative(eng, st, args, kw, node):
    """has_negative(ws): some element of the float list is < 0 (a function of the elements: opaque, unfolded nowhere)"""
    l = args[0]
    return _b(_uf("has_negative", st.seq_elems(l).sort(), z3.IntSort(), z3.BoolSort())(st.seq_elems(l), st.seq_len(l)))


BuiltinMixin.SPEC_FUNCS.update({"has_negative": sf_has_negative})


def sf_task_wf(eng, st, args, kw, node):
    """Object invariant of a Task: `variables` is the list the task was built with (ghost V0, nV0), every variable is well
    formed (size >= 1; a leaf is its own only coordinate; children are leaves), `space_dimension` is the sum of the sizes,
    and flat(task, i) is the child that owns coordinate i."""
    task = args[0]
    f, seg = eng.fsum_fn()
    eng.fsum_axioms(st)
    vs = st.read_field(task, "variables")
    n = st.seq_len(vs)
    el = st.seq_elems(vs)
    v0, nv0 = _v0(task.z), _nv0(task.z)
    VS = _vs_arr(eng, st, task.z)
    j = z3.Int(eng.ctx.fresh_name("tw"))
    r = z3.Int(eng.ctx.fresh_name("tr"))
    i = z3.Int(eng.ctx.fresh_name("ti"))
    dim = st.read_field(task, "space_dimension").z
    sg = seg(VS, nv0, i)
    facts = [n == nv0, nv0 >= 0,
             qforall([j], z3.Implies(z3.And(j >= 0, j < n), el[j] == v0[j]), patterns=[el[j]]),
             qforall([j], z3.Implies(z3.And(j >= 0, j < nv0), z3.And(_vsize(v0[j]) >= 1, var_wf(eng, st, v0[j]))), patterns=[v0[j]]),
             dim == f(VS, nv0),
             qforall([i], z3.Implies(z3.And(i >= 0, i < f(VS, nv0)), flat_var(task.z, i) == _child(v0[sg], i - f(VS, sg))),
                     patterns=[flat_var(task.z, i)])]
    return _b(z3.And(*facts))


def var_wf(eng, st, v_z):
    """a leaf has one coordinate, itself; a composite has vsize children, all leaves, held by `_children`"""
    r = z3.Int(eng.ctx.fresh_name("vr"))
    ch = st._read_field_at(v_z, "_children", st.field_type("_children"))
    chel = st.seq_elems(ch)
    leaf = z3.And(_vsize(v_z) == 1, _child(v_z, z3.IntVal(0)) == v_z)
    allc = qforall([r], z3.Implies(z3.And(r >= 0, r < _vsize(v_z)),
                                   z3.And(chel[r] == _child(v_z, r), z3.Not(_kids(_child(v_z, r))), _vsize(_child(v_z, r)) == 1)),
                   patterns=[chel[r]])
    # stated as guarded conjuncts (equivalent to If(kids, comp, leaf)): the quantified part can be instantiated eagerly
    return z3.And(z3.Implies(_kids(v_z), st.seq_len(ch) == _vsize(v_z)), z3.Implies(_kids(v_z), allc),
                  z3.Implies(z3.Not(_kids(v_z)), leaf))


def _cb(which, v_z, r):
    return _uf("cbound_" + which, z3.IntSort(), z3.IntSort(), z3.IntSort())(v_z, r)


def sf_cbound_lo(eng, st, args, kw, node):
    """cbound_lo(v, r): the lower bound the declared variable v gives to its r-th coordinate"""
    return V(("val",), _cb("lo", args[0].z, args[1].z))


def sf_cbound_hi(eng, st, args, kw, node):
    return V(("val",), _cb("hi", args[0].z, args[1].z))


def _task_bound(which):
    def sf(eng, st, args, kw, node):
        """blo / bhi(task, i): the bound of coordinate i = the bound its declared variable gives to that coordinate"""
        task, i = args
        f, seg = eng.fsum_fn()
        eng.fsum_axioms(st)
        VS = _vs_arr(eng, st, task.z)
        sg = seg(VS, _nv0(task.z), i.z)
        return V(("val",), _cb(which, z3.Select(_v0(task.z), sg), i.z - f(VS, sg)))
    return sf


BuiltinMixin.SPEC_FUNCS.update({"cbound_lo": sf_cbound_lo, "cbound_hi": sf_cbound_hi, "blo": _task_bound("lo"), "bhi": _task_bound("hi")})


def sf_var_wf(eng, st, args, kw, node):
    return _b(var_wf(eng, st, args[0].z))


BuiltinMixin.SPEC_FUNCS.update({"vsize": sf_vsize, "kids": sf_kids, "child": sf_child, "off": sf_off, "task_wf": sf_task_wf,
                                "var_wf": sf_var_wf})


def sf_is_scalar_objective(eng, st, args, kw, node):
    return _b(_uf("scalar_objective", z3.IntSort(), z3.BoolSort())(args[0].z))


def sf_scalar_case(eng, st, args, kw, node):
    return _b(z3.BoolVal(eng.case_env.get("__obj__", "scalar") == "scalar"))


def isnanv(val_z):
    return _uf("isnanv", z3.IntSort(), z3.BoolSort())(val_z)


def sf_isnanv(eng, st, args, kw, node):
    return _b(isnanv(args[0].z))


def sf_nanfree(eng, st, args, kw, node):
    """no coordinate of the candidate (among the first dim) is NaN"""
    task, p = args
    el = st.seq_elems(p)
    i = z3.Int(eng.ctx.fresh_name("nf"))
    dim = st.read_field(task, "space_dimension").z
    from .builtins import qforall
    return _b(qforall([i], z3.Implies(z3.And(i >= 0, i < dim), z3.Not(isnanv(el[i]))), patterns=[el[i]]))


def sf_Corr(eng, st, args, kw, node):
    var, val = args
    return V(("val",), _uf("Corr", z3.IntSort(), z3.IntSort(), z3.IntSort())(var.z, val.z))


def sf_fv(eng, st, args, kw, node):
    """fv(x): the abstract value (sort val) that the float x is - an injection of the doubles into the abstract values"""
    x = args[0]
    if x.t[0] == "val":
        return x
    fz = st.coerce(x, ("float",)).z
    return V(("val",), _uf("fv", fz.sort(), z3.IntSort())(fz))


def sf_dkeys(eng, st, args, kw, node):
    """dkeys(d) / dvals(d): the insertion log of a dict that is only filled by d[key] = value"""
    if args[0].t[0] != "dlog":
        raise Unsupported("dkeys of " + str(args[0].t))
    return args[0].items[0]


def sf_dvals(eng, st, args, kw, node):
    if args[0].t[0] != "dlog":
        raise Unsupported("dvals of " + str(args[0].t))
    return args[0].items[1]


def sf_unboxl(eng, st, args, kw, node):
    """unboxl(v): the list that the abstract value v is (inverse of the boxing done when a list is stored as a dict value)"""
    return V(("list", ("val",)), z3.Function("unboxl", z3.IntSort(), z3.IntSort())(args[0].z))


def sf_allocated(eng, st, args, kw, node):
    """allocated(x): the reference exists in the current state (what the invariant of a loop has to say about objects that
    earlier iterations allocated, so that later allocations are known to be other objects)"""
    x = args[0]
    st.type_tag(x)
    return _b(z3.And(x.z >= 0, x.z < st.alloc))


def sf_isboxl(eng, st, args, kw, node):
    return _b(z3.Function("isboxl", z3.IntSort(), z3.BoolSort())(args[0].z))


def sf_Dec(eng, st, args, kw, node):
    """Dec(var, value): what the (leaf) variable decodes the value to - a function of the variable and the value"""
    var, val = args
    return V(("val",), _uf("Dec", z3.IntSort(), z3.IntSort(), z3.IntSort())(var.z, val.z))


BuiltinMixin.SPEC_FUNCS.update({"is_scalar_objective": sf_is_scalar_objective, "scalar_case": sf_scalar_case,
                                "nanfree": sf_nanfree, "isnanv": sf_isnanv, "Corr": sf_Corr, "Dec": sf_Dec, "fv": sf_fv, "dkeys": sf_dkeys, "dvals": sf_dvals, "unboxl": sf_unboxl, "isboxl": sf_isboxl, "allocated": sf_allocated})


def sf_has_key(eng, st, args, kw, node):
    d, k = args
    return _b(z3.BoolVal(eng.static_str(k) in d.items))


BuiltinMixin.SPEC_FUNCS.update({"has_key": sf_has_key})


def sf_lists_unchanged_except(eng, st, args, kw, node):
    """every sequence that existed at entry, other than the listed ones, has the same length and elements"""
    o = eng.old_state
    if o is None:
        raise Unsupported("lists_unchanged_except() outside a postcondition")
    conj = []
    for name in sorted(set(st.heap) | set(o.heap)):
        if not (name == "len" or name.startswith("el_")):
            continue
        m1, m0 = st.heap.get(name), o.heap.get(name)
        if m1 is None:
            continue
        if m0 is None:
            m0 = z3.Const(name + "0", m1.sort())
        if m0.get_id() == m1.get_id():
            continue
        x = z3.Int(eng.ctx.fresh_name("l"))
        guard = z3.And(x >= 0, x < o.alloc, *[x != a.z for a in args])
        conj.append(qforall([x], z3.Implies(guard, m0[x] == m1[x]), patterns=[m1[x]]))
    return _b(z3.And(*conj) if conj else z3.BoolVal(True))


def sf_Reported(eng, st, args, kw, node):
    """Reported(task, a): cost is W(F(position)) in the user's sign, fitness is Fit of it"""
    task, a = args
    p = st.read_field(a, "position")
    wf = weighted(eng, st, task, p)
    return _b(z3.And(st.read_field(a, "cost").z == wf, st.read_field(a, "fitness").z == fit(eng, wf)))


def sf_fixed_size(eng, st, args, kw, node):
    """the optimizer class keeps exactly population_size agents (every class except the three variable-size ones)"""
    return _b(_uf("fixed_size_class", z3.IntSort(), z3.BoolSort())(args[0].z))


BuiltinMixin.SPEC_FUNCS.update({"lists_unchanged_except": sf_lists_unchanged_except, "Reported": sf_Reported,
                                "fixed_size": sf_fixed_size})


# ---- stop rule (C04): the predicate of the property statement, as a named spec function --------------------------------------
# Stop(self, k, r): after k cycles with rates r[0..k): the cycle count reached max_cycles, or the last rate is <=
# fitness_error, or the last `patience` changes of the rate (differences of consecutive rates; there are k-1 of them)
# are all decreases smaller than min_delta.
# A criterion of the EarlyStopping model left at None means the model's default (patience 1, min_delta 1e-4).
_PAT = "(__cfg.early_stopping.patience if __cfg.early_stopping.patience is not None else 1)"
_MD = "(__cfg.early_stopping.min_delta if __cfg.early_stopping.min_delta is not None else 0.0001)"
STOP_DEF = ("(__k >= __cfg.max_cycles"
            " or (__cfg.fitness_error is not None and __r[__k - 1] <= __cfg.fitness_error)"
            " or (__cfg.early_stopping is not None and __k - 1 >= " + _PAT + " and"
            " all(__r[j] - __r[j - 1] < 0 and abs(__r[j] - __r[j - 1]) < " + _MD +
            " for j in range(__k - " + _PAT + ", __k))))")


def _stop_args(eng, st, cfg: V):
    mc = st.read_field(cfg, "max_cycles").z
    fe = st.read_field(cfg, "fitness_error")
    es = st.read_field(cfg, "early_stopping")
    esn = es.none if es.none is not None else z3.BoolVal(False)
    pat = st._read_field_at(es.z, "patience", st.field_type("patience"))
    md = st._read_field_at(es.z, "min_delta", st.field_type("min_delta"))
    patz = z3.If(pat.none, z3.IntVal(1), pat.z) if pat.none is not None else pat.z
    mdz = z3.If(md.none, z3.RealVal("0.0001"), md.z) if md.none is not None else md.z
    return [mc, fe.none if fe.none is not None else z3.BoolVal(False), fe.z, esn, patz, mdz]


def sf_Stop(eng, st, args, kw, node):
    import ast as _ast
    self_v, k, r = args
    cfg = eng.deref(st, st.read_field(self_v, "_config"), node)
    a = _stop_args(eng, st, cfg)
    el = st.seq_elems(r)
    f = _uf("stop_at", *[x.sort() for x in a], el.sort(), z3.IntSort(), z3.BoolSort())
    app = f(*a, el, k.z)
    bound = [b["var"] for b in eng.ctx.bound_stack]
    from .exprs import _mentions
    if not any(_mentions(k.z, b) or _mentions(el, b) for b in bound):
        key = ("stopdef", app.get_id())
        if key not in st.axs:
            st.axs.add(key)
            # definitional unfolding for this ground instance
            st.frames.append(dict(st.env))
            st.env.update({"__k": k, "__r": r, "__cfg": cfg})
            saved_goal = eng.goal_pos
            eng.goal_pos = set()
            try:
                d = eng.truth(st, eng.eval(st, _ast.parse(STOP_DEF, mode="eval").body))
            finally:
                eng.goal_pos = saved_goal
                st.frames.pop()
            ax = app == d
            st.assume(ax)
            eng._axiom_ids.add(ax.get_id())
    return _b(app)


BuiltinMixin.SPEC_FUNCS.update({"Stop": sf_Stop})


def sf_seeded_with(eng, st, args, kw, node):
    """the numpy global RNG was (re)seeded with exactly this value, before any draw of this run"""
    want = args[0]
    got = st.ghost.get("seed_arg")
    if got is None or not st.ghost.get("seeded_before_draw", False):
        return _b(z3.BoolVal(False))
    return _b(eng.equals(st, got, want, node))


BuiltinMixin.SPEC_FUNCS.update({"seeded_with": sf_seeded_with})


def sf_own_streams(eng, st, args, kw, node):
    """no random-drawing callable was submitted to a process pool without seeding its own stream"""
    return _b(z3.BoolVal("shared_stream_submit" not in st.ghost))


BuiltinMixin.SPEC_FUNCS.update({"own_streams": sf_own_streams})


def sf_out(eng, st, args, kw, node):
    """the returned value (contracts of functions that have a parameter called `result`)"""
    return st.env["__ret__"]


BuiltinMixin.SPEC_FUNCS.update({"out": sf_out})


def sf_clipf(eng, st, args, kw, node):
    """mathematical clip: min(max(x, lo), hi) (NaN propagates in fp mode)"""
    x, lo, hi = [st.to_float(a).z for a in args]
    if eng.ctx.float_mode == "fp":
        m = z3.If(z3.fpLT(x, lo), lo, x)
        return V(("float",), z3.If(z3.fpIsNaN(x), x, z3.If(z3.fpGT(m, hi), hi, m)))
    m = z3.If(x < lo, lo, x)
    return V(("float",), z3.If(m > hi, hi, m))


def sf_finite(eng, st, args, kw, node):
    v = st.to_float(args[0]).z
    if eng.ctx.float_mode == "fp":
        return _b(z3.Not(z3.Or(z3.fpIsNaN(v), z3.fpIsInf(v))))
    return _b(z3.BoolVal(True))


BuiltinMixin.SPEC_FUNCS.update({"clipf": sf_clipf, "finite": sf_finite})
