"""Solver pool: obligations are shipped to worker processes as SMT-LIB2 text; z3 first, cvc5 on z3's `unknown`."""
from __future__ import annotations
import os, subprocess, tempfile, time
from concurrent.futures import ProcessPoolExecutor
import z3


def to_smt2(ob) -> str:
    s = z3.Solver()
    s.add(*ob.pc)
    s.add(ob.goal if ob.expect_sat else z3.Not(ob.goal))
    return s.to_smt2()


def _z3_check(text, timeout_ms, seed=0):
    """z3 through its API, under two watchdogs: the solver's own (soft) timeout is not honoured inside some non-linear
    procedures, so the context is interrupted a few seconds after the limit, and a query that survives even that is answered
    `unknown` by ending the worker process (the pool is rebuilt by the caller)."""
    import threading
    ctx = z3.Context()
    s = z3.Solver(ctx=ctx)
    s.set("timeout", timeout_ms)
    if seed:
        s.set("random_seed", seed)
    s.from_string(text)
    t0 = time.time()
    soft = threading.Timer(timeout_ms / 1000.0 + 5.0, ctx.interrupt)
    hard = threading.Timer(timeout_ms / 1000.0 + 45.0, lambda: os._exit(17))
    soft.daemon = hard.daemon = True
    soft.start()
    hard.start()
    try:
        try:
            r = s.check()
            reason = s.reason_unknown() if r == z3.unknown else ""
            r = str(r)
        except z3.Z3Exception as ex:  # interrupted
            r, reason = "unknown", f"interrupted: {ex}"
    finally:
        soft.cancel()
        hard.cancel()
    return r, time.time() - t0, reason


def _cvc5_check(text, timeout_ms):
    t0 = time.time()
    with tempfile.NamedTemporaryFile("w", suffix=".smt2", delete=False) as f:
        f.write("(set-logic ALL)\n" + text.replace("(set-info :status unknown)", ""))
        path = f.name
    try:
        out = subprocess.run(["/usr/bin/cvc5", f"--tlimit={timeout_ms}", "--strings-exp", path],
                             capture_output=True, text=True, timeout=timeout_ms / 1000 + 10)
        ans = out.stdout.strip().splitlines()[0] if out.stdout.strip() else "unknown"
        if ans not in ("sat", "unsat", "unknown"):
            ans = "unknown"
        return ans, time.time() - t0, out.stderr.strip()[:200]
    except Exception as e:  # noqa
        return "unknown", time.time() - t0, f"cvc5: {e}"
    finally:
        os.unlink(path)


def _work(item):
    key, text, timeout_ms, expect_sat, use_cvc5 = item[:5]
    cross = item[5] if len(item) > 5 else False
    if expect_sat:           # reachability covers: a quick sanity query, inconclusive is acceptable
        timeout_ms, use_cvc5 = min(timeout_ms, 3000), False
    r, t, reason = _z3_check(text, timeout_ms)
    backend = "z3"
    if r == "unknown" and use_cvc5:
        r2, t2, reason2 = _cvc5_check(text, timeout_ms)
        t += t2
        if r2 != "unknown":
            r, backend, reason = r2, "cvc5", reason2
    if cross and r == "unsat" and not expect_sat and backend == "z3":
        r3, t3, _ = _cvc5_check(text, min(timeout_ms, 10000))      # independent re-check (thorough tier)
        t += t3
        reason = "cvc5:" + r3
    return key, r, t, backend, reason


def discharge(obligations: dict, timeout_ms=10000, procs=None, use_cvc5=True, cross_check=False):
    """Returns key -> dict(status, time, backend, reason).  status: 'unsat' | 'sat' | 'unknown'."""
    procs = procs or min(16, os.cpu_count() or 4)
    items = [(k, to_smt2(ob), timeout_ms, ob.expect_sat, use_cvc5, cross_check) for k, ob in obligations.items()]
    out = {}
    if not items:
        return out
    # always in worker processes (a query that has to be abandoned ends its worker, never the caller); a broken pool is
    # rebuilt for the queries that have no answer yet, and a query that breaks the pool twice is answered `unknown`
    todo = list(items)
    strikes = {}
    while todo:
        ex = ProcessPoolExecutor(min(procs, max(1, len(todo))))
        futs = {ex.submit(_work, it): it for it in todo}
        todo = []
        for f, it in futs.items():
            try:
                key, r, t, backend, reason = f.result()
            except Exception as e:  # noqa  (BrokenProcessPool: some worker was ended by its watchdog)
                strikes[it[0]] = strikes.get(it[0], 0) + 1
                if strikes[it[0]] >= 2:
                    key, r, t, backend, reason = it[0], "unknown", float(it[2]) / 1000.0, "z3", f"abandoned: {type(e).__name__}"
                else:
                    todo.append(it)
                    continue
            out[key] = {"status": r, "time": t, "backend": backend, "reason": reason}
            if reason.startswith("cvc5:"):
                out[key]["cvc5"] = reason[5:]
        ex.shutdown(wait=False, cancel_futures=True)
    return out


def retry_unknown(obligations, res, timeout_ms, seeds=(0, 7, 42)):
    todo = [k for k, ob in obligations.items() if not ob.expect_sat and res[k]["status"] == "unknown"]
    if not todo:
        return
    # retries are for the odd unstable query; when many obligations of a function are open the function has failed
    # and repeating hundreds of minute-long queries changes nothing
    if len(todo) > 12:
        return
    items = []
    for k in todo:
        text = to_smt2(obligations[k])
        for sd in seeds:
            items.append((k, text, timeout_ms, sd))
    ex = ProcessPoolExecutor(min(8, len(items)))
    futs = [ex.submit(_retry_work, it) for it in items]
    for f in futs:
        try:
            k, r, t, sd = f.result()
        except Exception:  # noqa  (a retry that had to be abandoned ended its worker: the obligation stays unknown)
            continue
        res[k]["time"] += t
        if r != "unknown" and res[k]["status"] == "unknown":
            res[k]["status"] = r
            res[k]["backend"] = f"z3(seed={sd},retry)"
    ex.shutdown(wait=False, cancel_futures=True)


def _retry_work(item):
    k, text, timeout_ms, sd = item
    r, t, _ = _z3_check(text, timeout_ms, seed=sd)
    return k, r, t, sd
