"""Expression evaluation, calls, contract application, comprehensions."""
from __future__ import annotations
import ast
import z3

from .types import parse_type, is_ref, ENUMS, ENUM_MEMBERS, show
from .qf import qforall
from .state import (V, NONE, State, Unsupported, PathEnd, PyRaise, ReturnValue, BreakLoop, ContinueLoop,
                    static, is_static, _key)


class Iter:
    """A finite iterable described by its length and an element accessor."""

    def __init__(self, length_fn, get_fn, static_len=None):
        self._len = length_fn
        self._get = get_fn
        self.static_len = static_len

    def length(self, st):
        return self._len(st)

    def get(self, st, i):
        return self._get(st, i)


def pybool(b):
    return V(("bool",), z3.BoolVal(bool(b)))


class ExprMixin:
    # ---- helpers ----------------------------------------------------------------------------------------------
    def loc(self, node):
        return f"{self.cur_mod.file}:{getattr(node, 'lineno', 0)}"

    def safety(self, st, cond, label, node, clause=""):
        """Implicit-exception VC: `cond` must hold here (else python raises).  In spec mode nothing is obliged."""
        if self.spec_mode:
            return
        self.oblige(st, cond, "safety", label, self.loc(node), clause or ast.unparse(node)[:120])
        st.assume(cond)

    def deref(self, st, v: V, node):
        if v.t[0] == "none":
            self.safety(st, z3.BoolVal(False), "none-deref", node)
            raise PathEnd()
        if v.none is not None:
            self.safety(st, z3.Not(v.none), "none-deref", node)
            if self.spec_mode:
                return V(v.t, v.z)
        return V(v.t, v.z, None, v.items)

    def num(self, st, v: V, node):
        v = self.deref(st, v, node)
        if v.t[0] not in ("int", "float", "bool"):
            raise Unsupported(f"numeric use of {v.t} at {self.loc(node)}")
        if v.t[0] == "bool":
            return V(("int",), z3.If(v.z, 1, 0))
        return v

    def resolve_function_name(self, name, mod=None):
        mi = mod or self.cur_mod
        if name in mi.functions:
            return f"{mi.name}.{name}"
        if name in mi.imports:
            origin = mi.imports[name]
            if origin.startswith("pyvolutionary"):
                return origin
        return None

    def method_contract(self, ci, mname):
        for c in self.src.mro(ci):
            k = self.reg.get(f"{c.qname}.{mname}")
            if k is not None:
                return k
        return None

    # ---- dispatch -----------------------------------------------------------------------------------------------
    def eval(self, st: State, node: ast.expr) -> V:
        m = getattr(self, "e_" + type(node).__name__, None)
        if m is None:
            raise Unsupported(f"expression {type(node).__name__} at {self.loc(node)}")
        return m(st, node)

    def e_Constant(self, st, n):
        v = n.value
        if v is None:
            return NONE
        if isinstance(v, bool):
            return pybool(v)
        if isinstance(v, int):
            return V(("int",), z3.IntVal(v))
        if isinstance(v, float):
            return V(("float",), self.ctx.fconst(v))
        if isinstance(v, str):
            return V(("str",), z3.StringVal(v))
        raise Unsupported(f"constant {v!r}")

    def e_Name(self, st, n):
        name = n.id
        for fr in (st.frames[-1],):
            if name in fr:
                return fr[name]
        if name in self.SPEC_FUNCS and self.spec_mode:
            return static("spec", name)
        if name in self.BUILTINS:
            return static("builtin", name)
        if name in ENUMS:
            return static("enumcls", name)
        mi = st.env.get("__module__").items if "__module__" in st.env else self.cur_mod
        if name in mi.imports and mi.imports[name] in ("numpy", "concurrent.futures", "math", "random", "os",
                                                       "operator", "pandas"):
            return static("module", mi.imports[name])
        q = self.resolve_function_name(name, mi)
        if q is not None and self.src.function(q) is not None:
            return static("function", q)
        if name in mi.imports and "." in mi.imports[name]:
            mod_, attr_ = mi.imports[name].rsplit(".", 1)     # `from copy import deepcopy`: an attribute of an external module
            if (mod_, attr_) in self.LIBRARY:
                return static("modattr", (mod_, attr_))
        ci = self.src.resolve_class(name, mi.name)
        if ci is not None:
            return static("class", ci)
        if name in self.SPEC_FUNCS:
            return static("spec", name)
        if name in ("ValueError", "TypeError", "IndexError", "KeyError", "Exception"):
            return static("excls", name)
        raise Unsupported(f"unknown name {name} at {self.loc(n)}")

    def e_Tuple(self, st, n):
        if any(isinstance(e, ast.Starred) for e in n.elts):
            raise Unsupported("starred tuple")
        items = tuple(self.eval(st, e) for e in n.elts)
        return V(("tuple", tuple(i.t for i in items)), items=items)

    def e_List(self, st, n):
        items = [self.eval(st, e) for e in n.elts]
        if not items:
            return static("emptylist", None)
        et = items[0].t
        for it in items:
            if it.t != et:
                if {it.t[0], et[0]} <= {"int", "float"}:
                    et = ("float",)
                else:
                    raise Unsupported(f"heterogeneous list literal at {self.loc(n)}")
        return self.make_list(st, et, items)

    def make_list(self, st, et, items, kind="list"):
        arr = self.ctx.fresh_z("lit", z3.ArraySort(z3.IntSort(), self.ctx.sort_of(et)))
        for i, it in enumerate(items):
            arr = z3.Store(arr, i, st.coerce(it, et).z)
        return st.new_seq(et, kind, z3.IntVal(len(items)), arr)

    def materialize(self, st, v: V, et=None):
        """`[]` literals have no element type until they are used"""
        if is_static(v, "emptylist"):
            if et is None:
                raise Unsupported("element type of [] unknown")
            return st.new_seq(et, "list", z3.IntVal(0))
        return v

    def e_Dict(self, st, n):
        d = {}
        for k, v in zip(n.keys, n.values):
            if not (isinstance(k, ast.Constant) and isinstance(k.value, str)):
                raise Unsupported("dict literal with non-constant keys")
            d[k.value] = self.eval(st, v)
        return static("sdict", d)

    def e_Lambda(self, st, n):
        return static("closure", (n, st.frames[-1], self.cur_mod, self.cur_cls))

    def e_JoinedStr(self, st, n):
        return V(("str",), self.ctx.fresh_z("fstr", z3.StringSort()))

    def e_IfExp(self, st, n):
        c = self.truth(st, self.eval(st, n.test))
        if self.spec_mode:
            # clauses are pure: no forking, an if-then-else term (each arm evaluated under its guard)
            c = z3.simplify(c)
            if z3.is_true(c) or not self.feasible(st, z3.Not(c)):
                return self.eval(st, n.body)
            if z3.is_false(c) or not self.feasible(st, c):
                return self.eval(st, n.orelse)
            arms = []
            for guard, arm in ((c, n.body), (z3.Not(c), n.orelse)):
                mark = len(st.pc)
                st.pc.append(guard)
                v = self.eval(st, arm)
                added = st.pc[mark + 1:]
                del st.pc[mark:]
                self.readd(st, added, guard)
                arms.append(v)
            a, b = arms
            if a.t != b.t:
                if {a.t[0], b.t[0]} <= {"int", "float"}:
                    a, b = st.to_float(a), st.to_float(b)
                else:
                    raise Unsupported(f"conditional clause arms of different type {a.t} / {b.t}")
            if a.t[0] == "tuple" or a.z is None:
                raise Unsupported("conditional clause over static values")
            return V(a.t, z3.If(c, a.z, b.z))
        if self.choose(st, c):
            return self.eval(st, n.body)
        return self.eval(st, n.orelse)

    def e_NamedExpr(self, st, n):
        v = self.eval(st, n.value)
        st.env[n.target.id] = v
        return v

    def e_BoolOp(self, st, n):
        # short circuit with python value semantics restricted to booleans
        is_and = isinstance(n.op, ast.And)
        acc = None
        guards = []
        saved = len(st.pc)
        for i, e in enumerate(n.values):
            v = self.eval(st, e)
            b = self.truth(st, v)
            acc = b if acc is None else (z3.And(acc, b) if is_and else z3.Or(acc, b))
            if i < len(n.values) - 1:
                # the next operand is only evaluated when the running value does not decide the result
                g = b if is_and else z3.Not(b)
                if self.spec_mode:
                    st.pc.append(g)
                    guards.append(g)
                else:
                    # fork: if operand decides, result known
                    if not self.choose(st, g):
                        return V(("bool",), z3.BoolVal(not is_and))
        if guards:
            # facts assumed while evaluating guarded operands are only valid under the guards: weaken them
            added = st.pc[saved:]
            del st.pc[saved:]
            cur_guards = []
            for f in added:
                if any(f is g for g in guards):
                    cur_guards.append(f)
                else:
                    self.readd(st, [f], z3.And(*cur_guards) if cur_guards else None)
        return V(("bool",), acc)

    def e_UnaryOp(self, st, n):
        v = self.eval(st, n.operand)
        if isinstance(n.op, ast.Not):
            return V(("bool",), z3.Not(self.truth(st, v)))
        v = self.num(st, v, n)
        if isinstance(n.op, ast.USub):
            if v.t[0] == "float" and self.ctx.float_mode == "fp":
                return V(("float",), z3.fpNeg(v.z))
            return V(v.t, -v.z)
        if isinstance(n.op, ast.UAdd):
            return v
        raise Unsupported("unary op")

    def e_BinOp(self, st, n):
        l = self.eval(st, n.left)
        r = self.eval(st, n.right)
        return self.binop(st, n.op, l, r, n)

    def binop(self, st, op, l: V, r: V, node):
        # list concatenation / repetition
        if l.t[0] == "list" and r.t[0] == "list" and isinstance(op, ast.Add):
            return self.list_concat(st, l, r)
        if isinstance(op, ast.Mult) and l.t[0] == "int" and r.t[0] == "list":
            l, r = r, l
        if isinstance(op, ast.Mult) and l.t[0] == "list" and r.t[0] == "int":
            return self.list_repeat(st, l, r, node)
        if l.t[0] == "str" or r.t[0] == "str":
            if isinstance(op, ast.Add) and l.t[0] == r.t[0] == "str":
                return V(("str",), z3.Concat(l.z, r.z))
            raise Unsupported("string arithmetic")
        if l.t[0] == "bool" and r.t[0] == "bool" and isinstance(op, (ast.BitOr, ast.BitAnd)):
            return V(("bool",), z3.Or(l.z, r.z) if isinstance(op, ast.BitOr) else z3.And(l.z, r.z))
        if isinstance(op, (ast.Mult, ast.Add, ast.Sub)) and self.ctx.float_mode != "fp" and not self.spec_mode and \
                ((l.t[0] == "nd" and l.t[1][0] == "float" and r.t[0] in ("int", "float")) or
                 (r.t[0] == "nd" and r.t[1][0] == "float" and l.t[0] in ("int", "float"))):
            # numpy broadcasting: scalar <op> ndarray is the fresh array of the element-wise results (AX_numpy_arith_elementwise)
            self.ctx.tags.add("AX_numpy_arith_elementwise")
            arr, left_is_arr = (l, True) if l.t[0] == "nd" else (r, False)
            other = r if left_is_arr else l
            k = z3.Int(self.ctx.fresh_name("bk"))
            elem = V(("float",), st.seq_elems(arr)[k])
            ca = getattr(self.ctx, "const_arrays", {}).get(arr.z.get_id())
            if ca is not None and not self.feasible(st, st.seq_elems(arr) != z3.K(z3.IntSort(), z3.RealVal(ca[0]))):
                elem = V(("float",), z3.RealVal(ca[0]))        # np.zeros / np.ones used directly: every element is the constant
            body = self.binop(st, op, elem, other, node) if left_is_arr else self.binop(st, op, other, elem, node)
            bz = st.to_float(body).z
            K = self.keys_array(st, "bcarith:" + z3.substitute(bz, (k, z3.Int("ki"))).sexpr(), lambda x: z3.substitute(bz, (k, x)), bz.sort())
            return st.new_seq(("float",), "nd", st.seq_len(arr), K, "bcarith")
        l = self.num(st, l, node)
        r = self.num(st, r, node)
        if l.t[0] == "int" and r.t[0] == "int" and not isinstance(op, ast.Div):
            a, b = l.z, r.z
            if isinstance(op, ast.Add):
                return V(("int",), a + b)
            if isinstance(op, ast.Sub):
                return V(("int",), a - b)
            if isinstance(op, ast.Mult):
                return V(("int",), a * b)
            if isinstance(op, (ast.FloorDiv, ast.Mod)):
                self.safety(st, b != 0, "div-zero", node)
                q = z3.If(b > 0, a / b, (-a) / (-b))
                if isinstance(op, ast.FloorDiv):
                    return V(("int",), q)
                return V(("int",), a - b * q)
            if isinstance(op, ast.Pow):
                a_, b_ = z3.simplify(a), z3.simplify(b)
                if z3.is_int_value(a_) and z3.is_int_value(b_) and 0 <= b_.as_long() <= 64:
                    return V(("int",), z3.IntVal(a_.as_long() ** b_.as_long()))
                raise Unsupported("int power")
            raise Unsupported(f"int op {type(op).__name__}")
        lf, rf = st.to_float(l), st.to_float(r)
        if self.ctx.float_mode == "fp":
            rm = z3.RNE()
            if isinstance(op, ast.Add):
                return V(("float",), z3.fpAdd(rm, lf.z, rf.z))
            if isinstance(op, ast.Sub):
                return V(("float",), z3.fpSub(rm, lf.z, rf.z))
            if isinstance(op, ast.Mult):
                return V(("float",), z3.fpMul(rm, lf.z, rf.z))
            if isinstance(op, ast.Div):
                # python raises ZeroDivisionError for float / 0.0
                self.safety(st, z3.Not(z3.fpIsZero(rf.z)), "div-zero", node)
                return V(("float",), z3.fpDiv(rm, lf.z, rf.z))
            raise Unsupported(f"fp op {type(op).__name__}")
        self.ctx.tags.add("A_real")
        if isinstance(op, ast.Add):
            return V(("float",), lf.z + rf.z)
        if isinstance(op, ast.Sub):
            return V(("float",), lf.z - rf.z)
        if isinstance(op, ast.Mult):
            if z3.is_rational_value(z3.simplify(lf.z)) or z3.is_rational_value(z3.simplify(rf.z)):
                return V(("float",), lf.z * rf.z)       # a constant (possibly written as a constant expression) times a float
            return V(("float",), self.ufun("fmul", [lf.z, rf.z], z3.RealSort()))
        if isinstance(op, ast.Div):
            self.safety(st, rf.z != 0, "div-zero", node)
            if z3.is_rational_value(rf.z):
                return V(("float",), lf.z / rf.z)
            return V(("float",), self.ufun("fdiv", [lf.z, rf.z], z3.RealSort()))
        raise Unsupported(f"float op {type(op).__name__}")

    def ufun(self, name, args, sort):
        f = z3.Function(name, *[a.sort() for a in args], sort)
        return f(*args)

    # ---- comparison ------------------------------------------------------------------------------------------------
    def e_Compare(self, st, n):
        left = self.eval(st, n.left)
        if len(n.ops) == 1 and isinstance(n.ops[0], (ast.Lt, ast.LtE, ast.Gt, ast.GtE)) and not self.spec_mode \
                and left.t[0] == "nd" and left.t[1][0] in ("float", "int") and self.ctx.float_mode != "fp":
            right = self.eval(st, n.comparators[0])
            if right.t[0] in ("int", "float", "bool"):
                # numpy broadcasting of an ordered comparison: ndarray <op> scalar is the fresh boolean array of the
                # element-wise comparisons (assumed of numpy, tag AX_numpy_compare_elementwise)
                self.ctx.tags.add("AX_numpy_compare_elementwise")
                el = st.seq_elems(left)
                k = z3.Int(self.ctx.fresh_name("bc"))
                elem = V(left.t[1], el[k])
                body = self.compare(st, n.ops[0], elem, right, n)
                K = self.keys_array(st, "bcast:" + z3.substitute(body, (k, z3.Int("ki"))).sexpr(),
                                    lambda x: z3.substitute(body, (k, x)), z3.BoolSort())
                return st.new_seq(("bool",), "nd", st.seq_len(left), K, "bcast")
        acc = None
        for op, rn in zip(n.ops, n.comparators):
            right = self.eval(st, rn)
            b = self.compare(st, op, left, right, n)
            acc = b if acc is None else z3.And(acc, b)
            left = right
        return V(("bool",), acc)

    def is_none_z(self, v: V):
        if v.t[0] == "none":
            return z3.BoolVal(True)
        if v.none is not None:
            return v.none
        return z3.BoolVal(False)

    def compare(self, st, op, l: V, r: V, node):
        if isinstance(op, (ast.Is, ast.IsNot)):
            if r.t[0] == "none":
                b = self.is_none_z(l)
            elif l.t[0] == "none":
                b = self.is_none_z(r)
            elif is_ref(l.t) and is_ref(r.t):
                b = l.z == r.z
                if l.none is not None or r.none is not None:
                    b = z3.And(self.is_none_z(l) == self.is_none_z(r), z3.Or(self.is_none_z(l), b))
            else:
                raise Unsupported(f"`is` on {l.t}/{r.t}")
            return b if isinstance(op, ast.Is) else z3.Not(b)
        if isinstance(op, (ast.In, ast.NotIn)):
            b = self.contains(st, l, r, node)
            return b if isinstance(op, ast.In) else z3.Not(b)
        if isinstance(op, (ast.Eq, ast.NotEq)):
            b = self.equals(st, l, r, node)
            return b if isinstance(op, ast.Eq) else z3.Not(b)
        l = self.num(st, l, node)
        r = self.num(st, r, node)
        if l.t[0] == "int" and r.t[0] == "int":
            a, b = l.z, r.z
            fp = False
        else:
            a, b = st.to_float(l).z, st.to_float(r).z
            fp = self.ctx.float_mode == "fp"
        if isinstance(op, ast.Lt):
            return z3.fpLT(a, b) if fp else a < b
        if isinstance(op, ast.LtE):
            return z3.fpLEQ(a, b) if fp else a <= b
        if isinstance(op, ast.Gt):
            return z3.fpGT(a, b) if fp else a > b
        if isinstance(op, ast.GtE):
            return z3.fpGEQ(a, b) if fp else a >= b
        raise Unsupported("comparison op")

    def equals(self, st, l: V, r: V, node):
        if l.t[0] == "none" or r.t[0] == "none":
            return self.is_none_z(l if r.t[0] == "none" else r)
        nl, nr = self.is_none_z(l), self.is_none_z(r)
        if l.t[0] == "tuple" and r.t[0] == "tuple":
            if len(l.items) != len(r.items):
                return z3.BoolVal(False)
            return z3.And(*[self.equals(st, a, b, node) for a, b in zip(l.items, r.items)]) if l.items else z3.BoolVal(True)
        if is_static(l) or is_static(r):
            if is_static(l, "enumcls") or is_static(r, "enumcls"):
                raise Unsupported("== on enum class")
            raise Unsupported(f"== on static values {l.t} {r.t}")
        if l.t[0] == "enum" and r.t[0] == "str":
            l, r = r, l
        if l.t[0] == "str" and r.t[0] == "enum":
            # Enum members do not compare equal to their string value (plain Enum, not StrEnum)
            base = z3.BoolVal(False)
        elif l.t[0] in ("int", "bool", "float") and r.t[0] in ("int", "bool", "float"):
            ln, rn = self.num(st, V(l.t, l.z), node), self.num(st, V(r.t, r.z), node)
            if ln.t[0] == "int" and rn.t[0] == "int":
                base = ln.z == rn.z
            else:
                a, b = st.to_float(ln).z, st.to_float(rn).z
                base = z3.fpEQ(a, b) if self.ctx.float_mode == "fp" else a == b
        elif l.t[0] == r.t[0] == "enum":
            base = l.z == r.z if l.t[1] == r.t[1] else z3.BoolVal(False)
        elif l.t[0] == r.t[0] == "str":
            base = l.z == r.z
        elif l.t[0] in ("obj", "val") and r.t[0] == l.t[0]:
            # in specs `==` on references means identity; pydantic __eq__ on models is never used by the kernel
            base = l.z == r.z
        elif l.t[0] in ("list", "nd") and r.t[0] in ("list", "nd"):
            if not self.spec_mode:
                raise Unsupported("list == list in code")
            base = self.seq_equal(st, l, r)
        else:
            raise Unsupported(f"== between {l.t} and {r.t}")
        if l.none is not None or r.none is not None:
            return z3.And(nl == nr, z3.Or(nl, base))
        return base

    def seq_equal(self, st, a: V, b: V):
        i = z3.Int(self.ctx.fresh_name("i"))
        ea, eb = st.seq_elems(a), st.seq_elems(b)
        n = st.seq_len(a)
        return z3.And(n == st.seq_len(b),
                      qforall([i], z3.Implies(z3.And(i >= 0, i < n), ea[i] == eb[i]), patterns=[ea[i], eb[i]]))

    def contains(self, st, l: V, r: V, node):
        if is_static(r, "enumcls"):
            # MetaEnum.__contains__: cls(item) succeeds
            return self.enum_lookup(st, r.items, l)[0]
        if r.t[0] in ("list", "nd"):
            if not self.spec_mode:
                raise Unsupported("`in` on list in code")
            i = z3.Int(self.ctx.fresh_name("i"))
            return z3.Exists([i], z3.And(i >= 0, i < st.seq_len(r), st.seq_elems(r)[i] == l.z))
        raise Unsupported(f"`in` on {r.t}")

    def enum_lookup(self, st, ename, v: V):
        """Enum(value): returns (is_member z3 Bool, member index z3 Int)"""
        vals = ENUMS[ename]
        if v.t[0] == "enum":
            if v.t[1] == ename:
                return z3.BoolVal(True), v.z
            return z3.BoolVal(False), z3.IntVal(0)
        if v.t[0] == "str":
            ok = z3.Or(*[v.z == z3.StringVal(s) for s in vals])
            idx = z3.IntVal(0)
            for i, s in reversed(list(enumerate(vals))):
                idx = z3.If(v.z == z3.StringVal(s), i, idx)
            if v.none is not None:
                ok = z3.And(z3.Not(v.none), ok)
            return ok, idx
        if v.t[0] == "none":
            return z3.BoolVal(False), z3.IntVal(0)
        return z3.BoolVal(False), z3.IntVal(0)

    # ---- attribute / subscript ----------------------------------------------------------------------------------------
    def e_Attribute(self, st, n):
        base = self.eval(st, n.value)
        attr = n.attr
        if is_static(base, "module"):
            return static("modattr", (base.items, attr))
        if is_static(base, "modattr"):
            return static("modattr", (base.items[0] + "." + base.items[1], attr))
        if is_static(base, "finfo"):
            if attr == "eps":       # np.finfo(float).eps: a positive float constant
                z = z3.RealVal("2.220446049250313e-16") if self.ctx.float_mode != "fp" else z3.FPVal(2.220446049250313e-16, z3.Float64())
                return V(("float",), z)
            raise Unsupported(f"np.finfo attribute {attr}")
        if is_static(base, "enumcls"):
            if attr in ENUM_MEMBERS[base.items]:
                return V(("enum", base.items), z3.IntVal(ENUM_MEMBERS[base.items][attr]))
            raise Unsupported(f"enum attribute {attr}")
        if is_static(base, "sdict") or is_static(base, "super") or is_static(base, "class"):
            return static("bound", (base, attr))
        if base.t[0] in ("list", "nd", "str"):
            return static("bound", (base, attr))
        if base.t[0] == "enum":
            if attr == "value":
                vals = ENUMS[base.t[1]]
                z = z3.StringVal(vals[-1])
                for i in range(len(vals) - 2, -1, -1):
                    z = z3.If(base.z == i, z3.StringVal(vals[i]), z)
                return V(("str",), z)
            raise Unsupported("enum attribute")
        if base.t[0] == "obj":
            base = self.deref(st, base, n)
            ci = self.src.resolve_class(base.t[1], self.cur_mod.name)
            cf = self.reg.class_fields
            if attr in self.reg.field_types and not self._is_method(ci, attr):
                return st.read_field(base, attr)
            return static("bound", (base, attr))
        if base.t[0] == "none":
            self.safety(st, z3.BoolVal(False), "none-deref", n)
            raise PathEnd()
        raise Unsupported(f"attribute {attr} of {base.t} at {self.loc(n)}")

    def _is_method(self, ci, name):
        if ci is None:
            return False
        return self.src.find_method(ci, name) is not None

    def norm_index(self, st, seq: V, idx: V, node, check=True):
        n = st.seq_len(seq)
        i = idx.z
        i = z3.simplify(i)
        if check:
            self.safety(st, z3.And(i >= -n, i < n), "index-range", node)
        if self.spec_mode or z3.is_int_value(i) and i.as_long() >= 0 or not self.feasible(st, i < 0):
            return i            # clauses index from the front; so does code whose index is provably non-negative
        return z3.If(i < 0, i + n, i)

    def e_Subscript(self, st, n):
        base = self.eval(st, n.value)
        if base.t[0] in ("list", "nd"):
            base = self.deref(st, base, n)
            if isinstance(n.slice, ast.Slice):
                return self.slice_seq(st, base, n.slice, n)
            idx = self.eval(st, n.slice)
            if idx.t[0] != "int":
                raise Unsupported(f"index of type {idx.t}")
            return st.seq_get(base, self.norm_index(st, base, self.deref(st, idx, n), n))
        if base.t[0] == "tuple":
            idx = self.eval(st, n.slice)
            if idx.z is not None and z3.is_int_value(z3.simplify(idx.z)):
                k = z3.simplify(idx.z).as_long()
                if not -len(base.items) <= k < len(base.items):
                    self.safety(st, z3.BoolVal(False), "index-range", n)
                    raise PathEnd()
                return base.items[k]
            raise Unsupported("symbolic tuple index")
        if is_static(base, "sdict"):
            key = self.eval(st, n.slice)
            k = self.static_str(key)
            if k not in base.items:
                self.safety(st, z3.BoolVal(False), "key-present", n)
                raise PathEnd()
            return base.items[k]
        raise Unsupported(f"subscript of {base.t} at {self.loc(n)}")

    def static_str(self, v: V):
        if v.t[0] == "str":
            s = z3.simplify(v.z)
            if z3.is_string_value(s):
                return s.as_string()
        raise Unsupported("non-constant dict key")

    def store_subscript(self, st, base: V, tgt, val: V):
        if is_static(base, "sdict"):
            base.items[self.static_str(self.eval(st, tgt.slice))] = val
            return
        if base.t[0] == "dlog":
            key = self.eval(st, tgt.slice)
            if key.t[0] != "str":
                raise Unsupported(f"dict key of type {key.t}")
            if val.t[0] in ("list", "nd"):
                # a list stored as a dict value: boxed into the abstract value sort (unboxl is its inverse)
                bz = z3.Function("boxl", z3.IntSort(), z3.IntSort())(val.z)
                st.assume(z3.Function("unboxl", z3.IntSort(), z3.IntSort())(bz) == val.z)
                st.assume(z3.Function("isboxl", z3.IntSort(), z3.BoolSort())(bz))
                val = V(("val",), bz)
            elif val.t[0] != "val":
                raise Unsupported(f"dict value of type {val.t}")
            ks, vs = base.items
            nk, nv = st.seq_len(ks), st.seq_len(vs)
            st.seq_set_content(ks, nk + 1, z3.Store(st.seq_elems(ks), nk, key.z))
            st.seq_set_content(vs, nv + 1, z3.Store(st.seq_elems(vs), nv, val.z))
            return
        if base.t[0] == "list":
            if isinstance(tgt.slice, ast.Slice):
                raise Unsupported("slice assignment")
            idx = self.eval(st, tgt.slice)
            i = self.norm_index(st, base, idx, tgt)
            st.seq_set_content(base, st.seq_len(base), z3.Store(st.seq_elems(base), i, st.coerce(val, base.t[1]).z))
            return
        raise Unsupported(f"subscript store on {base.t}")

    def ite(self, st, cond, a, b):
        """if-then-else term, resolved at generation time when the path condition decides the condition"""
        cond = z3.simplify(cond)
        if z3.is_true(cond):
            return a
        if z3.is_false(cond):
            return b
        if not self.feasible(st, cond):
            return b
        if not self.feasible(st, z3.Not(cond)):
            return a
        return z3.If(cond, a, b)

    def slice_bounds(self, st, n_len, sl: ast.Slice, node):
        """python's slice index normalisation for step 1 (or -1 with no bounds)"""
        if sl.step is not None:
            stepv = self.eval(st, sl.step)
            s = z3.simplify(stepv.z)
            if not (z3.is_int_value(s) and s.as_long() in (1, -1)):
                raise Unsupported("slice step")
            if s.as_long() == -1:
                if sl.lower is not None or sl.upper is not None:
                    raise Unsupported("bounded reversed slice")
                return None, None, -1

        def clampv(e, default):
            if e is None:
                return default
            v = self.eval(st, e)
            if v.t[0] == "none":
                return default
            if v.t[0] != "int":
                raise Unsupported("slice bound type")
            z = z3.simplify(v.z)
            z = self.ite(st, z < 0, z + n_len, z)
            z = self.ite(st, z < 0, z3.IntVal(0), self.ite(st, z > n_len, n_len, z))
            if v.none is not None:
                z = z3.If(v.none, default, z)
            return z
        lo = clampv(sl.lower, z3.IntVal(0))
        hi = clampv(sl.upper, n_len)
        return lo, hi, 1

    def slice_seq(self, st, base: V, sl, node):
        n_len = st.seq_len(base)
        lo, hi, step = self.slice_bounds(st, n_len, sl, node)
        et = base.t[1]
        src = st.seq_elems(base)
        new_elems = self.ctx.fresh_z("slice", z3.ArraySort(z3.IntSort(), self.ctx.sort_of(et)))
        k = z3.Int(self.ctx.fresh_name("k"))
        if step == -1:
            length = n_len
            st.assume(qforall([k], z3.Implies(z3.And(k >= 0, k < length), new_elems[k] == src[n_len - 1 - k]),
                                patterns=[new_elems[k]]))
        else:
            length = z3.simplify(self.ite(st, hi > lo, hi - lo, z3.IntVal(0)))
            st.assume(qforall([k], z3.Implies(z3.And(k >= 0, k < length), new_elems[k] == src[z3.simplify(lo + k)]),
                                patterns=[new_elems[k]]))
            # the same relation indexed by the source position, so that a term src[j] produces new[j - lo]
            st.assume(qforall([k], z3.Implies(z3.And(k >= lo, k < lo + length), new_elems[z3.simplify(k - lo)] == src[k]),
                                patterns=[src[k]]))
        return st.new_seq(et, base.t[0], length, new_elems, "slice")

    # ---- list operations ---------------------------------------------------------------------------------------------------
    def list_concat(self, st, a: V, b: V):
        et = a.t[1]
        na, nb = st.seq_len(a), st.seq_len(b)
        ea, eb = st.seq_elems(a), st.seq_elems(b)
        ne = self.ctx.fresh_z("cat", z3.ArraySort(z3.IntSort(), self.ctx.sort_of(et)))
        k = z3.Int(self.ctx.fresh_name("k"))
        st.assume(qforall([k], z3.Implies(z3.And(k >= 0, k < na + nb), ne[k] == z3.If(k < na, ea[k], eb[k - na])),
                            patterns=[ne[k]]))
        return st.new_seq(et, "list", na + nb, ne, "cat")

    def list_extend(self, st, a: V, b: V):
        b = self.materialize(st, b, a.t[1])
        if b.t[0] == "tuple":
            b = self.make_list(st, a.t[1], list(b.items))
        if b.t[0] not in ("list", "nd"):
            raise Unsupported(f"extend of {a.t} with {b.t}")
        if self.ctx.sort_of(b.t[1]) != self.ctx.sort_of(a.t[1]) or (is_ref(b.t[1]) != is_ref(a.t[1])) \
                or (b.t[1][0] in ("list", "nd")) != (a.t[1][0] in ("list", "nd")):
            raise Unsupported(f"extend of {a.t} with {b.t}: a list of mixed element kinds is outside the subset")
        na, nb = st.seq_len(a), st.seq_len(b)
        ea, eb = st.seq_elems(a), st.seq_elems(b)
        ne = self.ctx.fresh_z("ext", z3.ArraySort(z3.IntSort(), self.ctx.sort_of(a.t[1])))
        k = z3.Int(self.ctx.fresh_name("k"))
        st.assume(qforall([k], z3.Implies(z3.And(k >= 0, k < na + nb), ne[k] == z3.If(k < na, ea[k], eb[k - na])),
                            patterns=[ne[k]]))
        st.seq_set_content(a, na + nb, ne)

    def list_repeat(self, st, a: V, r: V, node):
        """list * int: repetition; a non-positive factor gives the empty list"""
        n = st.seq_len(a)
        rz = z3.simplify(r.z)
        if z3.is_int_value(rz) and rz.as_long() <= 0:
            return st.new_seq(a.t[1], "list", z3.IntVal(0))
        if z3.is_int_value(rz) and rz.as_long() == 1:
            return st.new_seq(a.t[1], "list", n, st.seq_elems(a), "rep")
        raise Unsupported("list repetition by a symbolic factor")

    # ---- iteration ------------------------------------------------------------------------------------------------------------
    def as_iterable(self, st, v: V) -> Iter:
        if v.t[0] in ("list", "nd"):
            return Iter(lambda s: s.seq_len(v), lambda s, i: s.seq_get(v, i))
        if v.t[0] == "tuple":
            items = v.items

            def get(s, i):
                i = z3.simplify(i)
                if z3.is_int_value(i):
                    return items[i.as_long()]
                raise Unsupported("symbolic index into static tuple")
            return Iter(lambda s: z3.IntVal(len(items)), get, static_len=len(items))
        if is_static(v, "range"):
            lo, hi = v.items
            sl = None
            d = z3.simplify(hi - lo)
            if z3.is_int_value(d):
                sl = max(0, d.as_long())
            return Iter(lambda s: z3.If(hi > lo, hi - lo, 0), lambda s, i: V(("int",), lo + i), static_len=sl)
        if is_static(v, "enumerate"):
            inner = self.as_iterable(st, v.items[0])
            start = v.items[1]
            return Iter(inner.length, lambda s, i: V(("tuple", (("int",), ("any",))),
                                                     items=(V(("int",), start + i), inner.get(s, i))), inner.static_len)
        if is_static(v, "zip"):
            inners = [self.as_iterable(st, x) for x in v.items]

            def length(s):
                n = inners[0].length(s)
                for it in inners[1:]:
                    m = it.length(s)
                    n = z3.If(m < n, m, n)
                return n

            def get(s, i):
                its = tuple(it.get(s, i) for it in inners)
                return V(("tuple", tuple(x.t for x in its)), items=its)
            sls = [it.static_len for it in inners]
            return Iter(length, get, min(sls) if all(x is not None for x in sls) else None)
        if is_static(v, "emptylist"):
            return Iter(lambda s: z3.IntVal(0), lambda s, i: NONE, 0)
        if is_static(v, "iter"):
            return v.items
        raise Unsupported(f"iteration over {v.t}")

    # ---- comprehensions -------------------------------------------------------------------------------------------------------------
    def e_GeneratorExp(self, st, n):
        return static("genexp", (n, st.frames[-1]))

    def e_ListComp(self, st, n):
        return self.comprehension(st, n)

    def comprehension(self, st, n, result_kind="list"):
        """[elt for tgt in iter (if cond)] with a symbolic number of iterations: summarised by a quantified fact.
        Returns the fresh list.  With filters, the result is an order-preserving sub-sequence (embedding function)."""
        if len(n.generators) != 1:
            return self.flatten_comprehension(st, n)
        gen = n.generators[0]
        it = self.eval(st, gen.iter)
        seq = self.as_iterable(st, it)
        if seq.static_len is not None and seq.static_len <= 8 and not gen.ifs:
            items = []
            for i in range(seq.static_len):
                st.frames.append(dict(st.env))
                try:
                    self.assign(st, gen.target, seq.get(st, z3.IntVal(i)))
                    items.append(self.eval(st, n.elt))
                finally:
                    st.frames.pop()
            if not items:
                return static("emptylist", None)
            return self.make_list(st, items[0].t, items)
        if gen.ifs:
            raise Unsupported("filtered comprehension")
        n_len = seq.length(st)
        packed = self.quantified_body(st, n_len, seq, gen.target, n.elt)
        return self._assemble_comprehension(st, n_len, packed, None)

    def quantified_body(self, st: State, n_len, seq, target, elt, want_bool=False):
        """Evaluate `elt` for a symbolic index i in [0, n_len).  Iteration i owns the reference interval
        [base(i), end(i)); intervals of different iterations are disjoint and lie in [alloc0, alloc1)."""
        ctx = self.ctx
        i = z3.Int(ctx.fresh_name("ci"))
        alloc0 = st.alloc
        alloc1 = ctx.fresh_z("alloc", z3.IntSort())
        st.assume(alloc1 >= alloc0)
        results = []
        binder = {"var": i, "fresh": []}
        ctx.bound_stack.append(binder)
        base = ctx.fresh_z("base", z3.IntSort())
        endc = ctx.fresh_z("end", z3.IntSort())

        def run():
            s2 = st.clone()
            s2.frames = [dict(f) for f in st.frames]
            s2.frames.append(dict(st.env))
            s2.qmode = {"overlay": {}, "new": set(), "newrefs": [], "alloc0": alloc0, "alloc1": alloc1}
            s2.assume(z3.And(i >= 0, i < n_len))
            if self.cur is not None and "eager-inst" in self.cur.hints:
                # instances of assumptions at the bound index (sound; not exported with the summary): lets the
                # quantifier-free path solver prune alternatives an object invariant excludes for every element
                self.instantiate_at(s2, i)
            mark = len(s2.pc)
            s2.assume(z3.And(base >= alloc0, endc <= alloc1))
            s2.alloc = base
            try:
                first = seq.get(s2, i)
                if first.z is not None and z3.is_app(first.z) and first.z.decl().kind() == z3.Z3_OP_SELECT \
                        and first.z.arg(1).get_id() == i.get_id():
                    self._last_elem_term = first.z
                self.assign(s2, target, first)
                v = self.eval(s2, elt)
            except PyRaise as e:
                results.append(("raise", e, s2.pc[mark:], None, s2))
                return
            s2.assume(endc == s2.alloc)
            results.append(("ok", v, s2.pc[mark:], s2.qmode, s2))

        try:
            for _ in self.enumerate_paths(run):
                pass
        finally:
            ctx.bound_stack.pop()
        return (i, binder["fresh"], results, alloc0, alloc1, base, endc)

    def _functionize(self, i, fresh, exprs):
        """replace every fresh constant created inside the body by a function of the bound index"""
        subs = []
        for c in fresh:
            f = z3.Function(c.decl().name() + "_f", z3.IntSort(), c.sort())
            subs.append((c, f(i)))
        return [z3.substitute(e, *subs) if subs else e for e in exprs], dict((_key(c), r) for c, r in subs)

    def _assemble_comprehension(self, st: State, n_len, packed, et_hint, kind="list"):
        (i, fresh, results, alloc0, alloc1, base, endc) = packed
        elem_term = getattr(self, "_last_elem_term", None)
        self._last_elem_term = None
        oks = [r for r in results if r[0] == "ok"]
        for r in results:
            if r[0] == "raise":
                # the comprehension raises when some iteration does
                facts = [f_ for f_ in r[2] if f_.get_id() in r[4].dec_ids]
                cond = z3.And(*facts) if facts else z3.BoolVal(True)
                if any(_mentions(cond, c) for c in [i] + fresh):
                    # depends on the iteration: it must be impossible (for all i), unless the contract allows it
                    s2 = r[4]
                    self.oblige(s2, z3.BoolVal(False), "safety", f"no-{r[1].exc}-in-comprehension", r[1].where,
                                "exception inside a comprehension body")
                else:
                    if self.choose(st, z3.And(cond, n_len > 0)):
                        raise PyRaise(r[1].exc, r[1].where)
        if not oks:
            raise PathEnd()
        for r in oks:                       # ghost flags raised inside the body (RNG use, stream ownership) survive it
            st.ghost.update(r[4].ghost)
        et = oks[0][1].t
        for r in oks:
            if r[1].t != et:
                if {r[1].t[0], et[0]} <= {"int", "float"}:
                    et = ("float",)
                else:
                    raise Unsupported(f"comprehension element types differ: {r[1].t} / {et}")
        if et[0] in ("tuple", "static", "none"):
            raise Unsupported(f"comprehension of {et}")
        core_ids = {base.get_id(), endc.get_id()}
        extra_fresh = [c for c in fresh if c.get_id() not in core_ids]
        uses_heap = any(r[3]["newrefs"] or z3.simplify(r[4].alloc).get_id() != base.get_id() for r in oks)
        if len(oks) == 1 and len(results) == 1 and not extra_fresh and not uses_heap:
            # pure single-path body: the result content is the canonical array of its defining term, so the same
            # comprehension written in code and in a clause denotes the same array
            _, v, facts, q, s2 = oks[0]
            vz = st.coerce(v, et).z
            for f_ in facts:
                if any(_mentions(f_, c) for c in (base, endc)):
                    continue
                st.assume(qforall([i], z3.Implies(z3.And(i >= 0, i < n_len), f_)))
            probe = z3.Int("ki")
            K = self.keys_array(st, z3.substitute(vz, (i, probe)).sexpr(), lambda x: z3.substitute(vz, (i, x)), vz.sort())
            return st.new_seq(et, kind, n_len, K, "comp")
        res_elems = self.ctx.fresh_z("comp", z3.ArraySort(z3.IntSort(), self.ctx.sort_of(et)))
        for r in oks:
            _, v, facts, q, s2 = r
            vz = st.coerce(v, et).z
            # facts are kept in path order: a fact holds under the branch decisions taken *before* it (a callee's ensures
            # that precedes the first decision is unconditional, so that the guards of the paths are exhaustive)
            guards, early = [], []
            for f_ in facts:
                if f_.get_id() in s2.dec_ids:
                    guards.append(f_)
                else:
                    early.append(z3.Implies(z3.And(*guards), f_) if guards else f_)
            body = [res_elems[i] == vz]
            # Content of the objects created in this iteration.  Cells of unallocated references are unconstrained
            # (every quantified heap fact is guarded by `o < alloc` or by membership), so the content an object
            # gets at allocation is stated directly on the current maps ("pre-filled" view of fresh cells).
            for k_ref, fields_ in q["overlay"].items():
                ref = next((x for x in q["newrefs"] if _key(x) == k_ref), None)
                if ref is None:
                    raise Unsupported("write to an object that is not local to the comprehension iteration")
                for fname, val in fields_.items():
                    if fname == "len":
                        body.append(st.map("len", z3.IntSort())[ref] == val)
                    elif fname == "elems":
                        name = "el_" + _sortname(val.sort().range())
                        body.append(st.map(name, val.sort())[ref] == val)
                    else:
                        ft = st.field_type(fname)
                        t = ft[1] if ft[0] == "opt" else ft
                        if ft[0] == "opt":
                            isn = z3.BoolVal(True) if val.t[0] == "none" else (val.none if val.none is not None else z3.BoolVal(False))
                            body.append(st.map("fnone_" + fname, z3.BoolSort())[ref] == isn)
                        if val.t[0] != "none":
                            body.append(st.map("f_" + fname, self.ctx.sort_of(t))[ref] == st.coerce(val, t).z)
            conj = z3.And(*(early + [z3.Implies(z3.And(*guards), z3.And(*body)) if guards else z3.And(*body)]))
            (conj_f,), submap = self._functionize(i, fresh, [conj])
            pats = [res_elems[i]]
            if elem_term is not None:
                pats.append(elem_term)
            st.assume(qforall([i], z3.Implies(z3.And(i >= 0, i < n_len), conj_f), patterns=pats))
        # reference intervals of different iterations are disjoint (objects of iteration i precede those of j > i)
        bf = z3.Function(base.decl().name() + "_f", z3.IntSort(), z3.IntSort())
        ef = z3.Function(endc.decl().name() + "_f", z3.IntSort(), z3.IntSort())
        j = z3.Int(self.ctx.fresh_name("cj"))
        st.assume(qforall([i, j], z3.Implies(z3.And(i >= 0, i < j, j < n_len), ef(i) <= bf(j)),
                            patterns=[z3.MultiPattern(ef(i), bf(j))]))
        st.assume(qforall([i], z3.Implies(z3.And(i >= 0, i < n_len), z3.And(alloc0 <= bf(i), bf(i) <= ef(i), ef(i) <= alloc1)),
                            patterns=[bf(i)]))
        st.alloc = alloc1
        out = st.new_seq(et, kind, n_len, res_elems, "comp")
        return out

    # ---- prefix sums and concatenation of a list of lists ---------------------------------------------------------------------------
    def fsum_fn(self):
        ia = z3.ArraySort(z3.IntSort(), z3.IntSort())
        return z3.Function("fsum", ia, z3.IntSort(), z3.IntSort()), z3.Function("segf", ia, z3.IntSort(), z3.IntSort(), z3.IntSort())

    def fsum_axioms(self, st):
        """fsum(K, j) = K[0] + .. + K[j-1]; segf(K, n, i) = the segment that owns position i of the concatenation of n
        segments of lengths K[0..n) (theorems about finite sums of non-negative integers: lemmas/L2.lean)."""
        if "fsum" in st.axs:
            return
        st.axs.add("fsum")
        f, seg = self.fsum_fn()
        ia = z3.ArraySort(z3.IntSort(), z3.IntSort())
        K = z3.Const("fs_K", ia)
        j, n, i, a, b, k = (z3.Int("fs_" + x) for x in "jniabk")
        nonneg = qforall([k], z3.Implies(z3.And(k >= 0, k < n), K[k] >= 0), patterns=[K[k]])
        st.assume(qforall([K], f(K, z3.IntVal(0)) == 0, patterns=[f(K, z3.IntVal(0))]))
        st.assume(qforall([K, j], z3.Implies(j >= 0, f(K, j + 1) == f(K, j) + K[j]), patterns=[z3.MultiPattern(f(K, j), K[j])]))
        st.assume(qforall([K, n, a, b], z3.Implies(z3.And(nonneg, 0 <= a, a <= b, b <= n), f(K, a) <= f(K, b)),
                          patterns=[z3.MultiPattern(f(K, a), f(K, b), f(K, n))]))
        st.assume(qforall([K, n, i], z3.Implies(z3.And(nonneg, 0 <= i, i < f(K, n)),
                                                z3.And(0 <= seg(K, n, i), seg(K, n, i) < n, f(K, seg(K, n, i)) <= i,
                                                       i < f(K, seg(K, n, i)) + K[seg(K, n, i)],
                                                       f(K, seg(K, n, i) + 1) == f(K, seg(K, n, i)) + K[seg(K, n, i)])),
                          patterns=[seg(K, n, i)]))
        s_ = z3.Int("fs_s")
        st.assume(qforall([K, n, i, s_], z3.Implies(z3.And(nonneg, 0 <= s_, s_ < n, f(K, s_) <= i, i < f(K, s_) + K[s_]), seg(K, n, i) == s_),
                          patterns=[z3.MultiPattern(seg(K, n, i), f(K, s_))]))
        self.ctx.tags.add("AX_prefix_sums")

    def flatten_comprehension(self, st, n):
        """[item for v in XS for item in E(v)]: the concatenation of the lists E(v); the list of lists is summarised as a
        one-generator comprehension, the concatenation by prefix sums of the segment lengths."""
        if len(n.generators) != 2 or any(g.ifs for g in n.generators):
            raise Unsupported("nested comprehension")
        g0, g1 = n.generators
        if not (isinstance(n.elt, ast.Name) and isinstance(g1.target, ast.Name) and n.elt.id == g1.target.id):
            raise Unsupported("nested comprehension with a computed element")
        inner = ast.ListComp(elt=g1.iter, generators=[ast.comprehension(target=g0.target, iter=g0.iter, ifs=[], is_async=0)])
        ast.copy_location(inner, n)
        ast.fix_missing_locations(inner)
        S = self.comprehension(st, inner)
        if is_static(S, "emptylist"):
            return S
        if not (S.t[0] == "list" and S.t[1][0] in ("list", "nd")):
            raise Unsupported(f"flattening of {S.t}")
        return self.concat_lists(st, S)

    def concat_lists(self, st, S: V):
        et = S.t[1][1]
        f, seg = self.fsum_fn()
        self.fsum_axioms(st)
        n_len = st.seq_len(S)
        sel = st.seq_elems(S)
        # segment lengths as a canonical array of the defining term
        probe = z3.Int("ki")
        seglen = lambda x: st.seq_len(V(S.t[1], sel[x]))  # noqa: E731
        LK = self.keys_array(st, "seglen:" + seglen(probe).sexpr(), seglen, z3.IntSort())
        k = z3.Int(self.ctx.fresh_name("k"))
        st.assume(qforall([k], z3.Implies(z3.And(k >= 0, k < n_len), LK[k] >= 0), patterns=[LK[k]]))
        total = f(LK, n_len)
        st.assume(total >= 0)
        res = self.ctx.fresh_z("flat", z3.ArraySort(z3.IntSort(), self.ctx.sort_of(et)))
        i = z3.Int(self.ctx.fresh_name("fi"))
        sg = seg(LK, n_len, i)
        inner_list = V(S.t[1], sel[sg])
        st.assume(qforall([i], z3.Implies(z3.And(i >= 0, i < total), res[i] == st.seq_elems(inner_list)[i - f(LK, sg)]), patterns=[res[i]]))
        return st.new_seq(et, "list", total, res, "flat")

    # ---- calls -----------------------------------------------------------------------------------------------------------------------
    def eval_args(self, st, call: ast.Call):
        args, kwargs = [], {}
        for a in call.args:
            if isinstance(a, ast.Starred):
                v = self.eval(st, a.value)
                if v.t[0] == "tuple":
                    args.extend(v.items)
                else:
                    raise Unsupported("star-args of a non-static sequence")
            else:
                args.append(self.eval(st, a))
        for k in call.keywords:
            if k.arg is None:
                v = self.eval(st, k.value)
                if is_static(v, "sdict"):
                    kwargs.update(v.items)
                else:
                    raise Unsupported("**kwargs of a non-static mapping")
            else:
                kwargs[k.arg] = self.eval(st, k.value)
        return args, kwargs

    def e_Call(self, st, n: ast.Call):
        # spec forms that must not evaluate their argument eagerly
        if isinstance(n.func, ast.Name) and self.spec_mode and n.func.id in ("old", "forall", "implies", "exists"):
            return self.spec_form(st, n)
        f = self.eval(st, n.func)
        if is_static(f, "builtin") and f.items in self.LAZY_BUILTINS:
            return self.LAZY_BUILTINS[f.items](self, st, n)
        args, kwargs = self.eval_args(st, n)
        return self.call_value(st, f, args, kwargs, n)

    def call_value(self, st, f: V, args, kwargs, node):
        if is_static(f, "builtin"):
            return self.BUILTINS[f.items](self, st, args, kwargs, node)
        if is_static(f, "spec"):
            return self.SPEC_FUNCS[f.items](self, st, args, kwargs, node)
        if is_static(f, "closure"):
            return self.inline(st, f.items, args, kwargs, node)
        if is_static(f, "uf"):
            return V(("int",), f.items(*[a.z for a in args]))
        if is_static(f, "function"):
            return self.call_function(st, f.items, args, kwargs, node)
        if is_static(f, "modattr"):
            return self.call_library(st, f.items, args, kwargs, node)
        if is_static(f, "class"):
            return self.construct(st, f.items, args, kwargs, node)
        if is_static(f, "enumcls"):
            ok, idx = self.enum_lookup(st, f.items, args[0])
            if not self.choose(st, ok):
                raise PyRaise("ValueError", self.loc(node))
            return V(("enum", f.items), idx)
        if is_static(f, "bound"):
            recv, name = f.items
            return self.call_method(st, recv, name, args, kwargs, node)
        raise Unsupported(f"call of {f.t} at {self.loc(node)}")

    def bind_args(self, fdef, args, kwargs, node, self_v=None, st=None):
        a = fdef.args
        params = [x.arg for x in a.posonlyargs + a.args]
        env = {}
        pos = list(args)
        if self_v is not None:
            pos = [self_v] + pos
        if len(pos) > len(params) and not a.vararg:
            raise Unsupported("too many positional arguments")
        for p, v in zip(params, pos):
            env[p] = v
        defaults = dict(zip(params[len(params) - len(a.defaults):], a.defaults))
        for p in params[len(pos):]:
            if p in kwargs:
                env[p] = kwargs.pop(p)
            elif p in defaults:
                env[p] = ("default", defaults[p])
            else:
                raise Unsupported(f"missing argument {p}")
        for ko, d in zip(a.kwonlyargs, a.kw_defaults):
            if ko.arg in kwargs:
                env[ko.arg] = kwargs.pop(ko.arg)
            elif d is not None:
                env[ko.arg] = ("default", d)
        if a.kwarg:
            env[a.kwarg.arg] = static("sdict", dict(kwargs))
        elif kwargs:
            raise Unsupported(f"unexpected keyword arguments {list(kwargs)}")
        return env

    def inline(self, st, closure, args, kwargs, node, self_v=None):
        fn, defenv, mod, cls = closure
        if self.inline_depth > 6:
            raise Unsupported("inline depth")
        env = self.bind_args(fn, args, dict(kwargs), node, self_v)
        frame = dict(defenv)
        frame["__module__"] = static("modinfo", mod)
        saved_mod, saved_cls = self.cur_mod, self.cur_cls
        st.frames.append(frame)
        self.inline_depth += 1
        self.cur_mod, self.cur_cls = mod, cls
        saved_lc = getattr(self, "loop_counter", 0)
        try:
            for k, v in env.items():
                if isinstance(v, tuple) and v[0] == "default":
                    v = self.eval(st, v[1])
                frame[k] = v
            if isinstance(fn, ast.Lambda):
                return self.eval(st, fn.body)
            try:
                self.exec_block(st, fn.body)
            except ReturnValue as r:
                return r.v
            return NONE
        finally:
            self.inline_depth -= 1
            self.cur_mod, self.cur_cls = saved_mod, saved_cls
            st.frames.pop()

    def call_function(self, st, qname, args, kwargs, node):
        c = self.reg.get(qname)
        found = self.src.function(qname)
        if found is None:
            raise Unsupported(f"callee {qname} missing")
        fdef, mi, ci = found
        if c is None:
            # a module-level function without a contract is executed in place (exact semantics, like a nested function):
            # extracting a helper must not lose the proof
            if ci is None:
                return self.inline(st, (fdef, {}, mi, None), args, kwargs, node)
            raise Unsupported(f"callee {qname} has no contract")
        env = self.bind_args(fdef, args, dict(kwargs), node)
        return self.apply_contract(st, c, fdef, mi, env, node)

    def call_method(self, st, recv: V, name, args, kwargs, node):
        if is_static(recv, "sdict"):
            return self.dict_method(st, recv, name, args, kwargs, node)
        if is_static(recv, "super"):
            return self.super_call(st, recv, name, args, kwargs, node)
        if is_static(recv, "class"):
            return self.class_method(st, recv.items, name, args, kwargs, node)
        if recv.t[0] in ("list", "nd"):
            return self.seq_method(st, self.deref(st, recv, node), name, args, kwargs, node)
        if recv.t[0] == "obj":
            recv = self.deref(st, recv, node)
            ci = self.src.resolve_class(recv.t[1], self.cur_mod.name)
            if ci is None:
                return self.external_method(st, recv, name, args, kwargs, node)
            c = self.method_contract(ci, name)
            fm = self.src.find_method(ci, name)
            if c is not None and fm is not None:
                env = self.bind_args(fm[0], args, dict(kwargs), node, self_v=recv)
                return self.apply_contract(st, c, fm[0], self.src.modules[fm[1].module], env, node)
            if fm is None:
                return self.external_method(st, recv, name, args, kwargs, node)
            if name.startswith("__") and not name.endswith("__"):
                # a name-mangled private method cannot be overridden by a subclass: executed in place
                return self.inline(st, (fm[0], {}, self.src.modules[fm[1].module], fm[1]), args, kwargs, node, self_v=recv)
            overriders = [c_.name for c_ in self.src.subclasses_of(fm[1].qname) if name in c_.methods]
            if not overriders:
                # no class of the package overrides it: the body that runs is this one for every optimizer of the package
                self.ctx.tags.add(f"A_not_overridden:{fm[1].name}.{name}")
                return self.inline(st, (fm[0], {}, self.src.modules[fm[1].module], fm[1]), args, kwargs, node, self_v=recv)
            raise Unsupported(f"method {ci.name}.{name} has no contract (overridden by {overriders[:3]})")
        raise Unsupported(f"method {name} on {recv.t} at {self.loc(node)}")

    def apply_contract(self, st: State, c, fdef, mi, env, node, fresh_self=False):
        """Replace a call by the callee's contract: check requires, havoc assigns, assume ensures."""
        # defaults are evaluated in the callee's module
        frame = {"__module__": static("modinfo", mi)}
        saved_mod = self.cur_mod
        self.cur_mod = mi
        try:
            for k, v in env.items():
                if isinstance(v, tuple) and v[0] == "default":
                    st.frames.append(frame)
                    try:
                        v = self.eval(st, v[1])
                    finally:
                        st.frames.pop()
                frame[k] = v
            # coerce argument types to the declared ones where possible ([] literal, int->float)
            for k, ts in c.params.items():
                if k in frame and not isinstance(frame[k], tuple):
                    t = parse_type(ts)
                    if is_static(frame[k], "emptylist") and t[0] in ("list",):
                        frame[k] = st.new_seq(t[1], "list", z3.IntVal(0))
                    elif t[0] == "float" or (t[0] == "opt" and t[1][0] == "float"):
                        if frame[k].t[0] == "int":
                            nv = st.to_float(frame[k])
                            nv.none = frame[k].none
                            frame[k] = nv
            pre = st.clone()
            pre.frames = [frame]
            for name, expr in c.lets.items():
                frame[name] = self._spec_in(pre, expr, None, frame)
            short = c.qname.replace("pyvolutionary.", "")
            if not self.spec_mode:
                for lab, r in c.labelled("requires"):
                    stc = st.clone()
                    g = self.truth(stc, self.eval_goal(stc, r, None, mode="in", frame=frame))
                    self.oblige(stc, g, "pre", f"{short}.{lab}", self.loc(node), r)
                    st.assume(g)
            # exceptional behaviour
            for exc, cond in c.raises.items():
                cz = self.truth(st, self._spec_in(st, cond, None, frame))
                if self.choose(st, cz):
                    for cl in c.raises_ensures.get(exc, []):
                        st.assume(self.truth(st, self._spec_in(st, cl, pre, frame)))
                    raise PyRaise(exc, self.loc(node))
            # frame
            if st.qmode is not None and [a_ for a_ in c.assigns if a_ not in ("rng", "evals")]:
                raise Unsupported("callee with side effects inside a comprehension body")
            if c.allocates:
                st.havoc_alloc()
            self._havoc_locs_in(st, [a_ for a_ in c.assigns if not (fresh_self and a_.startswith("self."))], frame)
            ret = NONE
            when_key = None
            if c.returns is not None:
                if isinstance(c.returns, dict) and "when" in c.returns:
                    # the (dynamic) type of the result depends on a condition over the pre-state: one path per alternative
                    cz = self.truth(st, self._spec_in(st, c.returns["when"], None, frame))
                    when_key = "then" if self.choose(st, cz) else "else"
                    for pname, kinds in c.arg_shape_when.get(when_key, {}).items():
                        if pname in frame and isinstance(frame[pname], V) and frame[pname].t[0] not in kinds:
                            # the argument has the wrong dynamic type for this alternative (a scalar where the callee
                            # takes a sequence, or the converse): a violated precondition on this path
                            self.oblige(st, z3.BoolVal(False), "pre", f"{short}.argument-is-{'-or-'.join(kinds)}-when-{when_key}",
                                        self.loc(node), f"{pname}: {frame[pname].t[0]} given where {kinds} is required ({c.returns['when']} is {when_key == 'then'})")
                            raise PathEnd()
                    if not self.spec_mode:
                        for lab, r in c.requires_when.get(when_key, []):
                            stc = st.clone()
                            g = self.truth(stc, self.eval_goal(stc, r, None, mode="in", frame=frame))
                            self.oblige(stc, g, "pre", f"{short}.{lab}", self.loc(node), r)
                            st.assume(g)
                    rt = parse_type(c.returns[when_key])
                else:
                    rt = parse_type(self.ret_type(c))
                ret = self.ctx.fresh("ret_" + fdef.name, rt)
                self._assume_wf(st, ret)
                if st.qmode is None and self.inline_depth == 0:
                    for nm in getattr(self, "unaliased", ()):     # a list that has not escaped cannot come back from a callee
                        lv = st.frames[0].get(nm)
                        if isinstance(lv, V) and lv.t[0] in ("list", "nd") and lv.z is not None:
                            for x in (ret.items if ret.t[0] == "tuple" else (ret,)):
                                if is_ref(x.t) and x.z is not None:
                                    st.assume(x.z != lv.z)
                if c.fresh_result:
                    self._assume_fresh(st, ret, pre)
            extra = dict(frame)
            extra["__ret__"] = ret
            if "result" not in c.params:
                extra["result"] = ret
            for gname in c.ghost_out:
                if self.ctx.bound_stack:
                    raise Unsupported("ghost output of a callee inside a comprehension body")
                extra[gname] = static("uf", z3.Function(self.ctx.fresh_name(gname), z3.IntSort(), z3.IntSort()))
            for lab, e in c.labelled("ensures"):
                st.assume(self.truth(st, self._spec_in(st, e, pre, extra)))
            if when_key is not None:
                for e in c.ensures_when.get(when_key, []):
                    st.assume(self.truth(st, self._spec_in(st, e[1] if isinstance(e, tuple) else e, pre, extra)))
            return ret
        finally:
            self.cur_mod = saved_mod

    def _assume_fresh(self, st, ret: V, pre: State):
        if ret.t[0] == "tuple":
            for x in ret.items:
                self._assume_fresh(st, x, pre)
            return
        if is_ref(ret.t):
            if st.qmode is not None:
                st.qmode["new"].add(_key(ret.z))
                st.qmode["newrefs"].append(ret.z)
            st.assume(ret.z >= pre.alloc)

    def _spec_in(self, st, expr, old, frame):
        node = self._parse_clause(expr)
        saved_old, self.old_state = self.old_state, old
        self.spec_mode += 1
        st.frames.append(dict(frame))
        try:
            return self.eval(st, node)
        finally:
            st.frames.pop()
            self.spec_mode -= 1
            self.old_state = saved_old

    def _havoc_locs_in(self, st, locs, frame):
        if not locs:
            return
        st.frames.append(dict(frame))
        try:
            self._havoc_locs(st, locs, frame)
        finally:
            st.frames.pop()

    def readd(self, st, facts, guard=None):
        """put back facts that were assumed while evaluating under `guard`: axiom instances stay unconditional"""
        for f in facts:
            if f.get_id() in self._axiom_ids or guard is None:
                st.pc.append(f)
            else:
                st.pc.append(z3.Implies(guard, f))

    # ---- spec forms ----------------------------------------------------------------------------------------------------------------------
    def spec_form(self, st, n):
        name = n.func.id
        if name == "old":
            if self.old_state is None:
                return self.eval(st, n.args[0])
            o = self.old_state.clone()
            o.frames = [dict(st.env)]
            o.pc = st.pc          # facts learnt while evaluating in the old state are kept
            return self.eval(o, n.args[0])
        if name == "implies":
            a = z3.simplify(self.truth(st, self.eval(st, n.args[0])))
            if z3.is_false(a):
                return pybool(True)      # statically vacuous: the consequent may not even be well-typed in this case
            mark = len(st.pc)
            st.pc.append(a)
            b = self.truth(st, self.eval(st, n.args[1]))
            added = st.pc[mark + 1:]
            del st.pc[mark:]
            self.readd(st, added, a)
            return V(("bool",), z3.Implies(a, b))
        raise Unsupported(f"spec form {name}")


def _mentions(expr, c):
    target = c.get_id()
    seen = set()
    stack = [expr]
    while stack:
        e = stack.pop()
        if e.get_id() in seen:
            continue
        seen.add(e.get_id())
        if e.get_id() == target:
            return True
        if z3.is_quantifier(e):
            stack.append(e.body())
        else:
            stack.extend(e.children())
    return False


def _sortname(s):
    return str(s).replace("(", "_").replace(")", "").replace(" ", "").replace(",", "_")


