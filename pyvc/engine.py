"""Symbolic executor / VC generator over the real AST (statements, paths, contracts, loops)."""
from __future__ import annotations
import ast, hashlib
from dataclasses import dataclass, field
import z3

from .types import parse_type, is_ref, ENUMS, ENUM_MEMBERS, show
from .qf import qforall
from .state import (V, NONE, State, Ctx, Unsupported, PathEnd, PyRaise, BreakLoop, ContinueLoop, ReturnValue,
                    static, is_static, _key)
from .contract import Contract, REG
from .source import Source
from .exprs import ExprMixin
from .builtins import BuiltinMixin


@dataclass
class Obligation:
    name: str                 # K.<qname>.<kind>:<label>
    kind: str                 # post | pre | inv-init | inv-pres | safety | raises | variant | lemma | cover
    pc: list
    goal: object              # z3 Bool
    loc: str = ""
    clause: str = ""
    tags: tuple = ()
    expect_sat: bool = False  # cover obligations: pc /\ goal must be satisfiable
    qname: str = ""
    case: str = ""

    def key(self):
        return (self.name, self.case, self.expect_sat, tuple(f.hash() for f in self.pc), self.goal.hash())


class Oracle:
    def __init__(self):
        self.decisions = []   # list of [value(bool), forced(bool)]
        self.pos = 0

    def restart(self):
        self.pos = 0

    def advance(self):
        """Move to the next unexplored path; False when exhausted."""
        while self.decisions and (self.decisions[-1][1] or self.decisions[-1][0] is False):
            self.decisions.pop()
        if not self.decisions:
            return False
        self.decisions[-1][0] = False
        return True


def unaliased_locals(fdef):
    """Names bound exactly once, to a fresh list (`x = []` / a list display), whose every other occurrence is the receiver of
    a list method, the argument of len(), a subscript load, or inside a return statement: such a list never escapes
    before the function returns, so no callee can hand back a reference to it (syntactic escape analysis)."""
    binds, bad = {}, set()
    parents = {}
    for node in ast.walk(fdef):
        for ch in ast.iter_child_nodes(node):
            parents[id(ch)] = node
    for node in ast.walk(fdef):
        if isinstance(node, ast.Name):
            par = parents.get(id(node))
            if isinstance(node.ctx, ast.Store):
                stmt = par
                ok = isinstance(stmt, (ast.Assign, ast.AnnAssign)) and isinstance(stmt.value, ast.List) and \
                    (stmt.targets == [node] if isinstance(stmt, ast.Assign) else stmt.target is node)
                if ok and node.id not in binds:
                    binds[node.id] = stmt
                else:
                    bad.add(node.id)
                continue
            fine = False
            if isinstance(par, ast.Attribute) and par.value is node and isinstance(parents.get(id(par)), ast.Call) \
                    and parents[id(par)].func is par and par.attr in ("append", "extend", "insert", "pop", "sort", "copy", "index", "count", "reverse", "clear"):
                fine = True
            elif isinstance(par, ast.Call) and isinstance(par.func, ast.Name) and par.func.id == "len" and par.args == [node]:
                fine = True
            elif isinstance(par, ast.Subscript) and par.value is node and isinstance(par.ctx, ast.Load):
                fine = True
            else:
                p_ = par
                while p_ is not None and not isinstance(p_, ast.stmt):
                    p_ = parents.get(id(p_))
                fine = isinstance(p_, ast.Return)
            if not fine:
                bad.add(node.id)
    return {n for n in binds if n not in bad}


class Engine(ExprMixin, BuiltinMixin):
    MAX_PATHS = 400

    def __init__(self, source: Source | None = None, registry=REG, feas_timeout_ms=300):
        self.src = source or Source()
        self.reg = registry
        self.obligations: dict[str, Obligation] = {}
        self.undecided: list = []          # (qname, reason)
        self.oracles: list[Oracle] = []
        self.feas_timeout_ms = feas_timeout_ms
        self.ctx: Ctx | None = None
        self.cur: Contract | None = None
        self.cur_mod = None
        self.cur_cls = None
        self.case_label = ""
        self.spec_mode = 0
        self.old_state = None
        self.inline_depth = 0
        self.paths_run = 0
        self._feas = z3.Solver()
        self.goal_pos = set()
        self._skolem_here = False
        self.case_env = {}

    # ---- obligations -------------------------------------------------------------------------------------
    # sequence functionals: value determined by the first n elements of their array arguments
    FUNCTIONALS = {"mean": ([0], 1), "Fobj": ([1], 2), "FobjArr": ([1], 2), "dot": ([0, 1], 2), "fsum": ([0], 1), "segf": ([0], 1),
                   "stop_at": ([6], 7)}

    def congruence_instances(self, formulas):
        """Sequence functionals depend only on the first n elements of their array arguments: the (quantified)
        prefix-congruence axiom of every functional that is applied to two different argument tuples."""
        apps = {}
        for f in formulas:
            for e in self._functional_apps(f):
                apps.setdefault(e.decl(), set()).add(tuple(a.get_id() for a in e.children()))
        out = []
        for decl, argsets in apps.items():
            if len(argsets) < 2:
                continue
            arrs, npos = self.FUNCTIONALS[decl.name()]
            xs = [z3.Const(f"cgx_{decl.name()}_{p}", decl.domain(p)) for p in range(decl.arity())]
            ys = [z3.Const(f"cgy_{decl.name()}_{p}", decl.domain(p)) if p in arrs else xs[p] for p in range(decl.arity())]
            i = z3.Int(f"cgi_{decl.name()}")
            n = xs[npos]
            hyp = [qforall([i], z3.Implies(z3.And(i >= 0, i < n), xs[p][i] == ys[p][i])) for p in arrs]
            t1, t2 = decl(*xs), decl(*ys)
            vs = xs + [ys[p] for p in arrs]
            out.append(qforall(vs, z3.Implies(z3.And(*hyp), t1 == t2), patterns=[z3.MultiPattern(t1, t2)]))
        return out

    def _functional_apps(self, f):
        memo = self._fa_memo
        hit = memo.get(f.get_id())
        if hit is not None:
            return hit
        found = []
        seen = set()
        stack = [f]
        while stack:
            e = stack.pop()
            if e.get_id() in seen:
                continue
            seen.add(e.get_id())
            if z3.is_quantifier(e):
                stack.append(e.body())
                continue
            if z3.is_app(e):
                if e.decl().kind() == z3.Z3_OP_UNINTERPRETED and e.decl().name() in self.FUNCTIONALS:
                    found.append(e)
                stack.extend(e.children())
        memo[f.get_id()] = found
        return found

    def oblige(self, st: State, goal, kind, label, loc="", clause="", expect_sat=False):
        if not expect_sat:
            extra = self.congruence_instances(list(st.pc) + [goal])
            if extra:
                st = st.clone()
                for f in extra:
                    st.assume(f)
                self.ctx.tags.add("AX_sequence_functionals_depend_on_elements_only")
        name = f"K.{self.cur.qname.replace('pyvolutionary.', '')}.{kind}:{label}"
        ob = Obligation(name, kind, list(st.pc), goal, loc, clause, tuple(sorted(self.ctx.tags)), expect_sat,
                        self.cur.qname, self.case_label)
        self.obligations.setdefault(ob.key(), ob)

    # ---- path choice ---------------------------------------------------------------------------------------
    def feasible(self, st: State, cond):
        """May `cond` hold on this path?  Decided on the quantifier-free part of the path condition (dropping
        assumptions keeps `unsat` valid); anything else counts as feasible."""
        return self.ctx.inc.check(st.pc, cond) != z3.unsat

    def choose(self, st: State, cond) -> bool:
        if isinstance(cond, bool):
            return cond
        cond = z3.simplify(cond)
        if z3.is_true(cond):
            return True
        if z3.is_false(cond):
            return False
        orc = self.oracles[-1]
        if orc.pos < len(orc.decisions):
            val = orc.decisions[orc.pos][0]
        else:
            can_t = self.feasible(st, cond)
            can_f = self.feasible(st, z3.Not(cond))
            if can_t and can_f:
                orc.decisions.append([True, False])
            elif can_t:
                orc.decisions.append([True, True])
            elif can_f:
                orc.decisions.append([False, True])
            else:
                raise PathEnd()
            val = orc.decisions[orc.pos][0]
        orc.pos += 1
        f = cond if val else z3.simplify(z3.Not(cond))
        st.pc.append(f)                  # a branch decision: kept apart from assumptions (comprehension summaries
        st.dec_ids.add(f.get_id())       # need decisions as antecedents, not as facts)
        return val

    def enumerate_paths(self, fn):
        """Run fn() once per feasible path (fn re-executes from its own start each time)."""
        orc = Oracle()
        self.oracles.append(orc)
        try:
            n = 0
            while True:
                orc.restart()
                n += 1
                if n > self.MAX_PATHS:
                    raise Unsupported("path explosion")
                yield_val = fn()
                if yield_val is not None:
                    yield yield_val
                if not orc.advance():
                    break
        finally:
            self.oracles.pop()

    # ---- top level ------------------------------------------------------------------------------------------
    def verify(self, qname: str):
        """Generate the obligations of one function under contract (all type cases, all paths)."""
        c = self.reg.get(qname)
        if c is None:
            raise KeyError(qname)
        found = self.src.function(qname)
        if found is None:
            self.undecided.append((qname, "target-missing"))
            return
        fdef, mi, ci = found
        cases = c.cases or [{}]
        import os as _os
        only = _os.environ.get("PYVC_CASE")
        for idx, case in enumerate(cases):
            if only is not None and str(idx) != only:
                continue
            label = ",".join(f"{k}={v}" for k, v in case.items()) or "-"
            try:
                for _ in self.enumerate_paths(lambda: self._run_path(c, fdef, mi, ci, case, label)):
                    pass
            except Unsupported as e:
                self.undecided.append((qname, f"unsupported[{label}]: {e}"))

    def _fresh_ctx(self, c: Contract):
        self.ctx = Ctx(c.float_mode, self.reg.field_types)
        self.ctx.src = self.src
        self._axiom_cache = {}
        self._axiom_ids = set()
        self._fa_memo = {}

    def _bind_params(self, st: State, c: Contract, fdef, case, ci):
        args = fdef.args
        names = [a.arg for a in args.posonlyargs + args.args + args.kwonlyargs]
        if args.kwarg:
            names.append(args.kwarg.arg)
        for n in names:
            ts = case.get(n, c.params.get(n))
            if isinstance(ts, str) and ts == "None":
                st.env[n] = NONE
                continue
            if ts is None:
                if n == "self" and ci is not None:
                    ts = ci.name
                elif n == "cls":
                    st.env[n] = static("class", ci)
                    continue
                else:
                    raise Unsupported(f"parameter {n} has no declared type")
            t = parse_type(ts)
            if t[0] == "kw":
                st.env[n] = static("sdict", {k: self.ctx.fresh(f"{n}_{k}", tt) for k, (tt, req) in t[1].items()
                                             if req or case.get(f"has_{k}", True)})
                for v in st.env[n].items.values():
                    self._assume_wf(st, v)
                continue
            v = self.ctx.fresh(n, t)
            st.env[n] = v
            self._assume_wf(st, v)

    def _assume_wf(self, st, v: V):
        if v.t[0] == "tuple":
            for x in v.items:
                self._assume_wf(st, x)
            return
        if is_ref(v.t) and v.z is not None:
            f = z3.And(v.z >= 0, v.z < st.alloc)
            st.assume(z3.Implies(z3.Not(v.none), f) if v.none is not None else f)
        if v.t[0] == "enum":
            st.assume(z3.And(v.z >= 0, v.z < len(ENUMS[v.t[1]])))
        st.type_tag(v)
        if v.t[0] in ("list", "nd"):
            st.assume(st.seq_len(v) >= 0)

    def _run_path(self, c: Contract, fdef, mi, ci, case, label):
        self.paths_run += 1
        self._fresh_ctx(c)
        self.cur, self.cur_mod, self.cur_cls, self.case_label = c, mi, ci, label
        self.case_env = dict(case)
        self.spec_mode = 0
        self.inline_depth = 0
        st = State(self.ctx)
        self._bind_params(st, c, fdef, case, ci)
        st.env["__module__"] = static("modinfo", mi)
        st.env["__class__"] = static("class", ci) if ci else NONE
        # lets + requires (assumed)
        pre = st
        for name, expr in c.lets.items():
            st.env[name] = self.eval_spec(st, expr, None)
        for lab, r in c.labelled("requires"):
            st.assume(self.truth(st, self.eval_spec(st, r, None)))
        for r in c.entry_invariants:        # object invariants (established by constructors, no writer in the package)
            st.assume(self.truth(st, self.eval_spec(st, r, None)))
            self.ctx.tags.add("A_object_invariant:" + r[:60])
        if not self.feasible(st, z3.BoolVal(True)):
            self.oblige(st, z3.BoolVal(False), "vacuity", "requires-unsat", clause="requires are contradictory")
            return
        old = st.clone()
        self.fn_entry = old
        self.unaliased = unaliased_locals(fdef)
        loc = f"{mi.file}:{fdef.lineno}"
        self.loop_counter = 0
        try:
            try:
                self.exec_block(st, fdef.body)
                ret = NONE
            except ReturnValue as r:
                ret = r.v
            self._check_normal_exit(st, old, c, ret, loc)
        except PyRaise as e:
            self._check_raise_exit(st, old, c, e, loc)
        except PathEnd:
            pass

    def _check_normal_exit(self, st, old, c: Contract, ret: V, loc):
        # a normal return is only allowed when no `raises` condition held
        for exc, cond in c.raises.items():
            g = z3.Not(self.truth(old, self.eval_spec(old.clone(), cond, None)))
            self.oblige(st, g, "raises", f"must-raise-{exc}", loc, f"raises {exc} iff {cond}")
        if c.returns is not None:
            ret = self.coerce_to_type(st, ret, parse_type(self.ret_type(c)))
        env_extra = {"result": ret, "__ret__": ret}
        if "result" in c.params:
            del env_extra["result"]      # a parameter called `result`: the returned value is out()
        for gname, gsrc in c.ghost_out.items():
            lam = ast.parse(gsrc.strip(), mode="eval").body
            env_extra[gname] = static("closure", (lam, st.frames[0], self.cur_mod, self.cur_cls))
        for lab, e in c.labelled("ensures"):
            stc = st.clone()
            g = self.truth(stc, self.eval_goal(stc, e, old, env_extra))
            # facts introduced while evaluating the clause (axiom instances) are assumptions of the goal
            self.oblige(stc, g, "post", lab, loc, e)
        # cover: the end of the function is reachable under the precondition
        self.oblige(st, z3.BoolVal(True), "cover", "normal-exit", loc, "reachability of a normal return", expect_sat=True)

    def ret_type(self, c):
        """a return type may depend on the type case being verified ({"scalar": "float", "list": "list[float]"})"""
        r = c.returns
        if isinstance(r, dict):
            key = self.case_env.get(r["case"], r.get("default"))
            return r[key]
        return r

    def coerce_to_type(self, st, v: V, t):
        if t[0] == "tuple" and v.t[0] == "tuple" and len(t[1]) == len(v.items):
            items = tuple(self.coerce_to_type(st, x, tt) for x, tt in zip(v.items, t[1]))
            return V(("tuple", tuple(i.t for i in items)), items=items)
        if is_static(v, "emptylist") and t[0] in ("list", "nd"):
            return st.new_seq(t[1], t[0], z3.IntVal(0))
        if t[0] == "float" and v.t[0] in ("int", "bool"):
            return st.to_float(v)
        return v

    def _check_raise_exit(self, st, old, c: Contract, e: PyRaise, loc):
        if e.exc in c.raises:
            cond = c.raises[e.exc]
            g = self.truth(old, self.eval_spec(old.clone(), cond, None))
            self.oblige(st, g, "raises", f"only-when-{e.exc}", e.where or loc, f"raises {e.exc} iff {cond}")
            for lab_i, cl in enumerate(c.raises_ensures.get(e.exc, [])):
                stc = st.clone()
                g = self.truth(stc, self.eval_goal(stc, cl, old))
                self.oblige(stc, g, "raises", f"on-{e.exc}-{lab_i + 1}", e.where or loc, cl)
            self.oblige(st, z3.BoolVal(True), "cover", f"raise-{e.exc}", loc, "reachability of the raise", expect_sat=True)
        else:
            self.oblige(st, z3.BoolVal(False), "safety", f"no-{e.exc}", e.where or loc,
                        f"{e.exc} must not be raised under the precondition")

    # ---- spec evaluation ------------------------------------------------------------------------------------
    @staticmethod
    def mark_positive(root):
        """ids of the all(...) calls that occur positively in a clause (through and/or, the consequent of implies,
        the arms of a conditional, and the body of another positive all)"""
        out = set()

        def walk(n):
            if isinstance(n, ast.Call) and isinstance(n.func, ast.Name):
                if n.func.id == "all" and len(n.args) == 1 and isinstance(n.args[0], ast.GeneratorExp):
                    out.add(id(n))
                    walk(n.args[0].elt)
                elif n.func.id == "implies" and len(n.args) == 2:
                    walk(n.args[1])
            elif isinstance(n, ast.BoolOp):
                for v in n.values:
                    walk(v)
            elif isinstance(n, ast.IfExp):
                walk(n.body)
                walk(n.orelse)
        walk(root)
        return out

    def eval_goal(self, st, expr, old, extra=None, mode="spec", frame=None):
        """evaluate a clause that is about to be proved: positive universal quantifiers are Skolemised"""
        saved = self.goal_pos
        self._pending_goal = True
        try:
            if mode == "spec":
                return self.eval_spec(st, expr, old, extra)
            if mode == "inv":
                return self.eval_inv(st, expr, old)
            return self._spec_in(st, expr, old, frame)
        finally:
            self.goal_pos = saved
            self._pending_goal = False

    def _parse_clause(self, expr):
        node = ast.parse(expr.strip(), mode="eval").body
        if getattr(self, "_pending_goal", False):
            self.goal_pos = self.mark_positive(node)
            self._pending_goal = False
        return node

    def eval_spec(self, st: State, expr: str, old: State | None, extra: dict | None = None) -> V:
        node = self._parse_clause(expr)
        saved_old, self.old_state = self.old_state, old
        self.spec_mode += 1
        st.frames.append(dict(st.frames[0] if old is None else old.frames[0]))
        # parameters in clauses denote their values at entry (old frame); plus lets and result
        if extra:
            st.env.update(extra)
        try:
            return self.eval(st, node)
        finally:
            st.frames.pop()
            self.spec_mode -= 1
            self.old_state = saved_old

    def truth(self, st: State, v: V):
        """python truthiness of a symbolic value as a z3 Bool"""
        if isinstance(v, bool):
            return z3.BoolVal(v)
        k = v.t[0]
        if k == "none":
            return z3.BoolVal(False)
        if k == "static":
            if v.t[1] == "pybool":
                return z3.BoolVal(bool(v.items))
            return z3.BoolVal(True)
        base = None
        if k == "bool":
            base = v.z
        elif k == "int":
            base = v.z != 0
        elif k == "float":
            base = z3.Not(z3.fpIsZero(v.z)) if self.ctx.float_mode == "fp" else v.z != 0
        elif k in ("list", "nd"):
            base = st.seq_len(v) > 0
        elif k == "tuple":
            base = z3.BoolVal(len(v.items) > 0)
        elif k in ("obj", "enum", "val"):
            base = z3.BoolVal(True)
        elif k == "str":
            base = z3.Length(v.z) > 0
        else:
            raise Unsupported(f"truthiness of {v.t}")
        if v.none is not None:
            return z3.And(z3.Not(v.none), base)
        return base

    # ---- statements -------------------------------------------------------------------------------------------
    def exec_block(self, st: State, stmts):
        for s in stmts:
            self.exec_stmt(st, s)

    def exec_stmt(self, st: State, s: ast.stmt):
        m = getattr(self, "stmt_" + type(s).__name__, None)
        if m is None:
            raise Unsupported(f"statement {type(s).__name__} at line {s.lineno}")
        return m(st, s)

    def stmt_Expr(self, st, s):
        if isinstance(s.value, ast.Constant):
            return  # docstring
        if isinstance(s.value, ast.Call) and isinstance(s.value.func, ast.Name) and s.value.func.id == "print":
            return  # dropped by extraction (stdout only)
        self.eval(st, s.value)

    def stmt_Pass(self, st, s):
        pass

    def stmt_Return(self, st, s):
        raise ReturnValue(self.eval(st, s.value) if s.value is not None else NONE)

    def stmt_Raise(self, st, s):
        exc = s.exc
        name = None
        if isinstance(exc, ast.Call):
            exc = exc.func
        if isinstance(exc, ast.Name):
            name = exc.id
        if name is None:
            raise Unsupported("raise of a computed exception")
        raise PyRaise(name, f"{self.cur_mod.file}:{s.lineno}")

    def stmt_Break(self, st, s):
        raise BreakLoop()

    def stmt_Continue(self, st, s):
        raise ContinueLoop()

    def stmt_FunctionDef(self, st, s):
        st.env[s.name] = static("closure", (s, st.frames[-1], self.cur_mod, self.cur_cls))

    def stmt_Assign(self, st, s):
        val = self.eval(st, s.value)
        if is_static(val, "sdict") and not val.items and len(s.targets) == 1 and isinstance(s.targets[0], ast.Name) \
                and self.inline_depth == 0 and str(self.cur.locals.get(s.targets[0].id, "")).startswith("dlog"):
            # a dict that is only ever filled by `d[key] = value` with run-time string keys: represented by its insertion
            # log (keys and values in insertion order); the dict is dict(zip(keys, values)), a function of the log
            val = V(("dlog",), items=(st.new_seq(("str",), "list", z3.IntVal(0)), st.new_seq(("val",), "list", z3.IntVal(0))))
        if is_static(val, "emptylist") and len(s.targets) == 1 and isinstance(s.targets[0], ast.Name) \
                and self.inline_depth == 0 and s.targets[0].id in self.cur.locals:
            t = parse_type(self.cur.locals[s.targets[0].id])
            val = st.new_seq(t[1], t[0], z3.IntVal(0))
        for tgt in s.targets:
            self.assign(st, tgt, val)

    def stmt_AnnAssign(self, st, s):
        if s.value is not None:
            val = self.eval(st, s.value)
            if is_static(val, "emptylist") and isinstance(s.target, ast.Name) and s.target.id in self.cur.locals \
                    and self.inline_depth == 0:
                t = parse_type(self.cur.locals[s.target.id])
                val = st.new_seq(t[1], t[0], z3.IntVal(0))
            self.assign(st, s.target, val)

    def stmt_AugAssign(self, st, s):
        cur = self.eval(st, _load(s.target))
        rhs = self.eval(st, s.value)
        if cur.t[0] in ("list",) and isinstance(s.op, ast.Add):
            # in-place extend
            self.list_extend(st, cur, rhs)
            return
        val = self.binop(st, s.op, cur, rhs, s)
        self.assign(st, s.target, val)

    def assign(self, st: State, tgt, val: V):
        if isinstance(tgt, ast.Name):
            st.env[tgt.id] = val
        elif isinstance(tgt, (ast.Tuple, ast.List)):
            items = self.unpack(st, val, len(tgt.elts), f"{self.cur_mod.file}:{tgt.lineno}")
            for t, v in zip(tgt.elts, items):
                self.assign(st, t, v)
        elif isinstance(tgt, ast.Attribute):
            obj = self.eval(st, tgt.value)
            if obj.t[0] != "obj":
                raise Unsupported(f"attribute store on {obj.t}")
            self.deref(st, obj, tgt)
            if is_static(val, "emptylist"):
                ft = st.field_type(tgt.attr)
                ft = ft[1] if ft[0] == "opt" else ft
                val = st.new_seq(ft[1], ft[0], z3.IntVal(0))
            st.write_field(obj, tgt.attr, val)
        elif isinstance(tgt, ast.Subscript):
            base = self.eval(st, tgt.value)
            self.store_subscript(st, base, tgt, val)
        else:
            raise Unsupported(f"assignment target {type(tgt).__name__}")

    def unpack(self, st, val: V, n: int, loc):
        if val.t[0] == "tuple":
            if len(val.items) != n:
                self.oblige(st, z3.BoolVal(False), "safety", "unpack-arity", loc, f"unpack {len(val.items)} into {n}")
                raise PathEnd()
            return list(val.items)
        if val.t[0] in ("list", "nd"):
            self.oblige(st, st.seq_len(val) == n, "safety", "unpack-arity", loc, f"sequence must have exactly {n} items")
            st.assume(st.seq_len(val) == n)
            return [st.seq_get(val, z3.IntVal(i)) for i in range(n)]
        raise Unsupported(f"unpack of {val.t}")

    def stmt_If(self, st, s):
        if not s.orelse and any(isinstance(x, ast.Attribute) and x.attr == "_debug" for x in ast.walk(s.test)) and \
                all(isinstance(b, ast.Expr) and isinstance(b.value, ast.Call) and isinstance(b.value.func, ast.Name)
                    and b.value.func.id == "print" for b in s.body):
            return      # `if self._debug: print(...)` - dropped by extraction (writes to stdout only)
        c = self.truth(st, self.eval(st, s.test))
        if self.choose(st, c):
            self.exec_block(st, s.body)
        else:
            self.exec_block(st, s.orelse)

    def stmt_Try(self, st, s):
        if s.finalbody or s.orelse:
            raise Unsupported("try/finally/else")
        try:
            self.exec_block(st, s.body)
        except PyRaise as e:
            for h in s.handlers:
                names = []
                if h.type is None:
                    names = None
                elif isinstance(h.type, ast.Name):
                    names = [h.type.id]
                elif isinstance(h.type, ast.Tuple):
                    names = [x.id for x in h.type.elts]
                if names is None or e.exc in names or "Exception" in names:
                    if h.name:
                        st.env[h.name] = static("exc", e.exc)
                    self.exec_block(st, h.body)
                    return
            raise

    def stmt_With(self, st, s):
        # `with get_pool_executor(...) as executor:` - context manager entry/exit are library behaviour (assumed
        # contract: __enter__ returns the executor, __exit__ waits for the submitted work and does not swallow).
        for item in s.items:
            v = self.eval(st, item.context_expr)
            if item.optional_vars is not None:
                self.assign(st, item.optional_vars, v)
        self.exec_block(st, s.body)

    def stmt_Assert(self, st, s):
        g = self.truth(st, self.eval(st, s.test))
        self.oblige(st, g, "safety", "assert", f"{self.cur_mod.file}:{s.lineno}", ast.unparse(s.test))
        st.assume(g)

    # ---- loops ----------------------------------------------------------------------------------------------------
    def _loop_id(self):
        self.loop_counter += 1
        return f"loop{self.loop_counter}"

    def _assigned_names(self, body):
        names = set()
        for node in ast.walk(ast.Module(body=list(body), type_ignores=[])):
            if isinstance(node, ast.Name) and isinstance(node.ctx, ast.Store):
                names.add(node.id)
        return names

    def _mutated_lists(self, body):
        names = set()
        for node in ast.walk(ast.Module(body=list(body), type_ignores=[])):
            if isinstance(node, ast.Call) and isinstance(node.func, ast.Attribute) and \
                    node.func.attr in ("append", "extend", "insert", "pop", "sort", "remove", "clear") and \
                    isinstance(node.func.value, ast.Name):
                names.add(node.func.value.id)
            if isinstance(node, ast.AugAssign) and isinstance(node.target, ast.Name):
                names.add(node.target.id)
        return names

    def _havoc_loop(self, st: State, lid, body, extra_names=()):
        """Loop head after an arbitrary number of iterations: objects that existed at loop entry keep every field
        except the locations the body assigns (loop_assigns, or what is collected syntactically); objects allocated
        by earlier iterations are unconstrained (the invariant has to say what is known about them)."""
        la = self.cur.loop_assigns.get(lid)
        if la is None:
            la = []
            for node in ast.walk(ast.Module(body=list(body), type_ignores=[])):
                if isinstance(node, ast.Attribute) and isinstance(node.ctx, ast.Store) and \
                        isinstance(node.value, ast.Name) and node.value.id == "self":
                    la.append(f"self.{node.attr}")
                if isinstance(node, ast.Call):
                    cc = self._static_contract_of_call(st, node)
                    if cc is not None:
                        for a in cc.assigns:
                            if a in ("rng", "evals"):
                                continue
                            if a.startswith("self.") and isinstance(node.func, ast.Attribute) and \
                                    isinstance(node.func.value, ast.Name) and node.func.value.id == "self":
                                la.append(a)
                            else:
                                raise Unsupported(f"loop_assigns needed for {lid} (callee assigns {a})")
        # targets are evaluated in the entry state
        targets = []
        for a in la:
            if a.startswith("content(") and a.endswith(")"):
                targets.append(("content", self.eval(st, ast.parse(a[8:-1], mode="eval").body)))
            elif "." in a:
                objname, fname = a.rsplit(".", 1)
                targets.append(("field", self.eval(st, ast.parse(objname, mode="eval").body), fname))
            else:
                raise Unsupported(f"loop assigns location {a}")
        # Allocation never changes the heap maps (fresh cells are pre-filled, see State.init_field), and the body
        # writes pre-existing objects only at the targets above: no other cell of the maps needs to be forgotten.
        # Objects allocated by earlier iterations are only reachable through havocked locals / targets.
        st.havoc_alloc()
        for n in sorted(self._assigned_names(body) | set(extra_names)):
            if n in st.env and st.env[n].z is not None:
                old = st.env[n]
                nv = self.ctx.fresh(n, old.t)
                if old.none is not None:
                    nv.none = self.ctx.fresh_z(n + "_isnone", z3.BoolSort())
                self._assume_wf(st, nv)
                st.env[n] = nv
            elif n in st.env and st.env[n].t[0] == "tuple":
                st.env[n] = self.ctx.fresh(n, st.env[n].t)
        for n in sorted(self._mutated_lists(body)):
            if n in st.env and st.env[n].t[0] == "list":
                self._havoc_seq(st, st.env[n])
        for node in ast.walk(ast.Module(body=list(body), type_ignores=[])):
            if isinstance(node, ast.Subscript) and isinstance(node.ctx, ast.Store) and isinstance(node.value, ast.Name) \
                    and node.value.id in st.env and st.env[node.value.id].t[0] == "dlog":
                for part in st.env[node.value.id].items:
                    self._havoc_seq(st, part)
        for t in targets:
            if t[0] == "content":
                self._havoc_seq(st, t[1])
            else:
                ft = st.field_type(t[2])
                nv = self.ctx.fresh(t[2], ft)
                self._assume_wf(st, nv)
                st.write_field(t[1], t[2], nv)

    def _havoc_seq(self, st, lst: V):
        n = self.ctx.fresh_z("len", z3.IntSort())
        st.assume(n >= 0)
        st.seq_set_content(lst, n, self.ctx.fresh_z("elems", z3.ArraySort(z3.IntSort(), self.ctx.sort_of(lst.t[1]))))

    def _havoc_locs(self, st: State, locs, env):
        for a in locs:
            if a == "rng":
                st.ghost["rng_used"] = True      # the callee may draw from the global numpy RNG
            if a in ("alloc", "alloc?", "rng", "evals"):
                continue
            if a == "*":
                for name in list(st.heap):
                    st.heap[name] = self.ctx.fresh_z(name, st.heap[name].sort())
                self._havoc_all = True
                continue
            if a.startswith("field:"):
                fname = a[6:]
                ft = st.field_type(fname)
                t = ft[1] if ft[0] == "opt" else ft
                st.heap["f_" + fname] = self.ctx.fresh_z("f_" + fname, z3.ArraySort(z3.IntSort(), self.ctx.sort_of(t)))
                if ft[0] == "opt":
                    st.heap["fnone_" + fname] = self.ctx.fresh_z("fnone_" + fname, z3.ArraySort(z3.IntSort(), z3.BoolSort()))
                continue
            if a.startswith("content(") and a.endswith(")"):
                tgt = self.eval(st, ast.parse(a[8:-1], mode="eval").body)
                self._havoc_seq(st, tgt)
                continue
            if "." in a:
                objname, fname = a.rsplit(".", 1)
                obj = self.eval(st, ast.parse(objname, mode="eval").body)
                ft = st.field_type(fname)
                nv = self.ctx.fresh(fname, ft)
                self._assume_wf(st, nv)
                st.write_field(obj, fname, nv)
                continue
            raise Unsupported(f"assigns location {a}")

    def _assume_wf_soft(self, st, v):
        if v.t[0] in ("list", "nd") and v.z is not None:
            pass

    def _static_contract_of_call(self, st, node: ast.Call):
        f = node.func
        try:
            if isinstance(f, ast.Name):
                q = self.resolve_function_name(f.id)
                return self.reg.get(q) if q else None
            if isinstance(f, ast.Attribute) and isinstance(f.value, ast.Name) and f.value.id == "self" and self.cur_cls:
                return self.method_contract(self.cur_cls, f.attr)
        except Unsupported:
            return None
        return None

    def stmt_While(self, st, s):
        if s.orelse:
            raise Unsupported("while/else")
        lid = self._loop_id()
        invs = self.cur.invariants.get(lid)
        loc = f"{self.cur_mod.file}:{s.lineno}"
        if invs is None:
            raise Unsupported(f"while loop {lid} has no invariant")
        self._loop_with_invariant(st, lid, invs, loc, s.body,
                                  cond=lambda st_: self.truth(st_, self.eval(st_, s.test)), bind=None)

    def _check_invs(self, st, lid, invs, kind, loc, entry_state):
        for i, inv in enumerate(invs):
            lab, e = inv if isinstance(inv, tuple) else (f"{lid}.inv{i + 1}", inv)
            stc = st.clone()
            g = self.truth(stc, self.eval_goal(stc, e, entry_state, mode="inv"))
            self.oblige(stc, g, kind, lab, loc, e)

    def eval_inv(self, st, e, entry_state):
        """invariants are evaluated in the current frame (they mention locals); old(.) = function pre-state;
        at_entry(.) is not needed so far."""
        node = self._parse_clause(e)
        self.spec_mode += 1
        saved_old, self.old_state = self.old_state, getattr(self, "fn_entry", None)     # old(.) = the function's pre-state
        try:
            return self.eval(st, node)
        finally:
            self.spec_mode -= 1
            self.old_state = saved_old

    def _assume_invs(self, st, lid, invs, entry_state):
        for inv in invs:
            e = inv[1] if isinstance(inv, tuple) else inv
            st.assume(self.truth(st, self.eval_inv(st, e, entry_state)))

    def _loop_with_invariant(self, st, lid, invs, loc, body, cond, bind, extra_havoc=()):
        entry = st.clone()
        saved_old = self.old_state
        self._check_invs(st, lid, invs, "inv-init", loc, entry)
        self._havoc_loop(st, lid, body, extra_havoc)
        self._assume_invs(st, lid, invs, entry)
        dec = self.cur.decreases.get(lid)
        c = cond(st)
        if self.choose(st, c):
            if bind is not None:
                bind(st)
            d0 = self.eval_inv(st, dec, entry).z if dec else None
            try:
                try:
                    self.exec_block(st, body)
                except ContinueLoop:
                    pass
            except BreakLoop:
                return
            if bind is not None and hasattr(bind, "step"):
                bind.step(st)
            self._check_invs(st, lid, invs, "inv-pres", loc, entry)
            if dec:
                d1 = self.eval_inv(st, dec, entry).z
                self.oblige(st, z3.And(d0 >= 0, d1 < d0), "variant", f"{lid}.decreases", loc, dec)
            self.oblige(st, z3.BoolVal(True), "cover", f"{lid}.body-end", loc, "loop body end reachable", expect_sat=True)
            raise PathEnd()
        # loop exit: invariant holds and condition is false
        return

    def _accumulation_loop(self, st, s) -> bool:
        """`for t in it: acc.append(e)` / `acc.extend(e)` (possibly under if/else) on a local list that has not escaped is
        the comprehension `acc += [x for t in it for x in segment(t)]`: executed as that comprehension (same calls, same
        order), so the idiom needs no hand-written invariant."""
        def mentions(node, name):
            return any(isinstance(x, ast.Name) and x.id == name for x in ast.walk(node))

        def seg_of(stmts, name):
            segs = []
            for stn in stmts:
                if isinstance(stn, ast.Expr) and isinstance(stn.value, ast.Call) and isinstance(stn.value.func, ast.Attribute) \
                        and isinstance(stn.value.func.value, ast.Name) and stn.value.func.value.id == name \
                        and stn.value.func.attr in ("append", "extend") and len(stn.value.args) == 1 and not stn.value.keywords:
                    e = stn.value.args[0]
                    if mentions(e, name):
                        return None
                    segs.append(ast.List(elts=[e], ctx=ast.Load()) if stn.value.func.attr == "append" else e)
                elif isinstance(stn, ast.If) and not mentions(stn.test, name):
                    a = seg_of(stn.body, name)
                    b = seg_of(stn.orelse, name) if stn.orelse else ast.List(elts=[], ctx=ast.Load())
                    if a is None or b is None:
                        return None
                    segs.append(ast.IfExp(test=stn.test, body=a, orelse=b))
                else:
                    return None
            if not segs:
                return None
            out = segs[0]
            for x in segs[1:]:
                out = ast.BinOp(left=out, op=ast.Add(), right=x)
            return out

        names = set()
        for x in ast.walk(ast.Module(body=s.body, type_ignores=[])):
            if isinstance(x, ast.Attribute) and isinstance(x.value, ast.Name) and x.attr in ("append", "extend"):
                names.add(x.value.id)
        if len(names) != 1:
            return False
        name = names.pop()
        if name not in getattr(self, "unaliased", ()) or self.inline_depth != 0:
            return False
        acc = st.frames[0].get(name)
        if acc is None or not (is_static(acc, "emptylist") or (isinstance(acc, V) and acc.t[0] == "list")):
            return False
        seg = seg_of(s.body, name)
        if seg is None:
            return False
        if isinstance(seg, ast.List) and len(seg.elts) == 1:
            comp = ast.ListComp(elt=seg.elts[0], generators=[ast.comprehension(target=s.target, iter=s.iter, ifs=[], is_async=0)])
        else:
            item = "__acc_item"
            comp = ast.ListComp(elt=ast.Name(id=item, ctx=ast.Load()),
                                generators=[ast.comprehension(target=s.target, iter=s.iter, ifs=[], is_async=0),
                                            ast.comprehension(target=ast.Name(id=item, ctx=ast.Store()), iter=seg, ifs=[], is_async=0)])
        ast.copy_location(comp, s)
        ast.fix_missing_locations(comp)
        res = self.eval(st, comp)
        if is_static(acc, "emptylist"):
            st.frames[0][name] = res
        elif is_static(res, "emptylist"):
            pass
        else:
            self.list_extend(st, acc, res)
        return True

    def stmt_For(self, st, s):
        if s.orelse:
            raise Unsupported("for/else")
        it = self.eval(st, s.iter)
        loc = f"{self.cur_mod.file}:{s.lineno}"
        seq = self.as_iterable(st, it)
        # static, small iteration spaces are unrolled
        if seq.static_len is not None and seq.static_len <= 8:
            lid_peek = f"loop{self.loop_counter + 1}"
            if lid_peek not in self.cur.invariants:
                self.loop_counter += 1
                try:
                    for i in range(seq.static_len):
                        self.assign(st, s.target, seq.get(st, z3.IntVal(i)))
                        try:
                            self.exec_block(st, s.body)
                        except ContinueLoop:
                            continue
                except BreakLoop:
                    pass
                return
        lid = self._loop_id()
        invs = self.cur.invariants.get(lid)
        if invs is None:
            if self._accumulation_loop(st, s):
                return
            raise Unsupported(f"for loop {lid} (line {s.lineno}) has no invariant")
        # ghost index variable: <lid>_i ; the implicit invariant 0 <= i <= n is added
        iname = f"{lid}_i"
        n = seq.length(st)
        st.env[iname] = V(("int",), z3.IntVal(0))
        idx_inv = (f"{lid}.index", f"0 <= {iname} <= __n_{lid}")
        st.env[f"__n_{lid}"] = V(("int",), n)
        if it.z is not None:
            st.env[f"{lid}_seq"] = it

        def cond(st_):
            return st_.env[iname].z < n

        def bind(st_):
            self.assign(st_, s.target, seq.get(st_, st_.env[iname].z))

        def step(st_):
            st_.env[iname] = V(("int",), st_.env[iname].z + 1)
        bind.step = step
        self._loop_with_invariant(st, lid, [idx_inv] + list(invs), loc, s.body, cond, bind, extra_havoc=(iname,))


_QF_CACHE = {}


def qf_part(pc, small_only=False):
    """quantifier-free formulas of a path condition; with small_only just the short ones (bounds on references)"""
    out = []
    for f in pc:
        k = f.get_id()
        q = _QF_CACHE.get(k)
        if q is None:
            q = (_has_quantifier(f), _size_over(f, 40))
            _QF_CACHE[k] = q
        if not q[0] and not (small_only and q[1]):
            out.append(f)
    return out


def _size_over(e, limit):
    stack, n = [e], 0
    while stack:
        x = stack.pop()
        n += 1
        if n > limit:
            return True
        if z3.is_app(x):
            stack.extend(x.children())
    return False


def _has_quantifier(e):
    stack, seen = [e], set()
    while stack:
        x = stack.pop()
        if x.get_id() in seen:
            continue
        seen.add(x.get_id())
        if z3.is_quantifier(x):
            return True
        if z3.is_app(x):
            stack.extend(x.children())
    return False


def _has_bound_var(e):
    stack, seen = [e], set()
    while stack:
        x = stack.pop()
        if x.get_id() in seen:
            continue
        seen.add(x.get_id())
        if z3.is_var(x):
            return True
        if z3.is_app(x):
            stack.extend(x.children())
    return False


def _load(node):
    n = ast.parse(ast.unparse(node), mode="eval").body
    ast.copy_location(n, node)
    return n
