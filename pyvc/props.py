"""Per-property check composition: VC (deductive obligations on kernel functions), EFF (frame / reads / provenance
obligations over the optimizer classes), BND (bounded run-time monitors, labelled bounded)."""
from __future__ import annotations
import json, os, time

from .report import Report, VERIF
from .contract import REG

PROPERTIES = {f"C{i:02d}": {} for i in range(1, 21)}

TRUSTED_VC = [
    "pyvc encoder (AST -> SMT): /verif/pyvc/{engine,exprs,builtins,state,library}.py",
    "z3 5.1 (python API), cvc5 1.0.3 on z3's unknowns",
    "assumed contracts of dependencies (pyvc/library.py): CPython list.sort / slices / copy, numpy argsort / average, "
    "pydantic model_copy / constructors, concurrent.futures as_completed",
]


def _vc_component(R: Report, pid: str, tier: str, only=None):
    from .engine import Engine
    from . import specfuncs, library  # noqa: F401
    import contracts  # noqa: F401
    from .solve import discharge
    from . import witness

    eng = Engine()
    funcs = [q for q, c in REG.contracts.items() if pid in c.properties and c.verify]
    if only:
        funcs = [q for q in funcs if q in only]
    timeout = 15000 if tier == "quick" else 60000
    ckey = _cache_key(eng, tier)
    cdir = os.path.join(VERIF, ".cache", "vc", ckey)
    os.makedirs(cdir, exist_ok=True)
    _prune(os.path.dirname(cdir), keep=12)
    records, undecided_all = [], []
    mods = set()
    todo = []
    for q in funcs:
        found = eng.src.function(q)
        if found:
            mods.add(found[1].name)
        R.functions.append(q)
        cpath = os.path.join(cdir, q + ".json")
        if not (os.path.exists(cpath) and not os.environ.get("PYVC_NOCACHE")):
            todo.append(q)
    # every function is verified in a process of its own: the generated formulas (and so the solver's behaviour) do not
    # depend on what else was verified before; functions run in parallel
    if todo:
        import subprocess, sys, tempfile
        from concurrent.futures import ThreadPoolExecutor
        tmpd = tempfile.mkdtemp(prefix="vc_", dir=cdir)

        def one(q):
            heavy = q.endswith(".optimize")
            ncases = len(REG.get(q).cases) if heavy else 1
            procs_, outs = [], []
            for ci_ in range(ncases):
                out = os.path.join(tmpd, f"{q}.{ci_}.json")
                env = dict(os.environ, PYTHONHASHSEED="0")
                if ncases > 1:
                    env["PYVC_CASE"] = str(ci_)        # the type cases of a heavy function are verified side by side
                outs.append(out)
                procs_.append(subprocess.Popen([sys.executable, "-m", "pyvc.worker", q, tier, out, "6" if heavy else "3"], cwd=VERIF,
                                               stdout=subprocess.DEVNULL, stderr=subprocess.PIPE, text=True, env=env))
            merged = {"records": [], "undecided": []}
            limit = 1800 if tier == "quick" else 5400          # wall-clock limit per function: a check never hangs
            for pr, out in zip(procs_, outs):
                try:
                    _, err = pr.communicate(timeout=limit)
                except subprocess.TimeoutExpired:
                    pr.kill()
                    pr.communicate()
                    merged["undecided"].append([q, f"unsupported[-]: generation / discharge did not finish within {limit} s"])
                    continue
                if not os.path.exists(out):
                    return q, None, (err or "")[-400:]
                d_ = json.load(open(out))
                merged["records"] += d_["records"]
                merged["undecided"] += d_["undecided"]
            return q, merged, ""
        fresh = {}
        with ThreadPoolExecutor(6) as ex:
            for q, d, err in ex.map(one, sorted(todo, key=lambda x: not x.endswith(".optimize"))):
                if d is None:
                    R.machinery.append(f"VC worker crashed on {q}: {err}")
                    continue
                fresh[q] = d
                und = d["undecided"]
                if not und and all(r_["status"] == "unsat" for r_ in d["records"] if not r_["expect_sat"]):
                    json.dump(d, open(os.path.join(cdir, q + ".json"), "w"))     # only clean results are reused
        import shutil
        shutil.rmtree(tmpd, ignore_errors=True)
    for q in funcs:
        cpath = os.path.join(cdir, q + ".json")
        d = json.load(open(cpath)) if (os.path.exists(cpath) and q not in todo) else (fresh.get(q) if todo else None)
        if d is None:
            continue
        records += d["records"]
        undecided_all += [tuple(u) for u in d["undecided"]]
    R.hashes.update(eng.src.hashes(sorted(mods)))
    failed_by_fn = {}
    tags = set()
    covers = {}
    for rec in records:
        if rec["expect_sat"]:
            covers.setdefault((rec["name"], rec["case"]), []).append(rec)
    # a cover is a reachability sanity check: one reachable path per (function, case) is enough; it is a vacuity
    # failure only when every path to that exit is unreachable
    for (name, case), lst in covers.items():
        sts = [r["status"] for r in lst]
        r0 = lst[0]
        if "sat" in sts:
            R.obligation(name, r0["kind"], "discharged", "VC", "z3", max(x["time"] for x in lst), r0["clause"], r0["loc"], r0["tags"])
        elif all(s_ == "unsat" for s_ in sts):
            R.machinery.append(f"vacuity: cover {name} [{case}] is unreachable (contradictory precondition or axioms)")
        else:
            R.obligation(name, r0["kind"], "cover-inconclusive", "VC", "z3", 0.0, r0["clause"], r0["loc"])
    for rec in records:
        tags.update(rec["tags"])
        if rec["expect_sat"]:
            continue
        if rec["status"] == "unsat":
            if rec.get("cvc5") == "sat":
                R.machinery.append(f"solver disagreement on {rec['name']}: z3 unsat, cvc5 sat")
            R.obligation(rec["name"], rec["kind"], "discharged", "VC", rec["backend"], rec["time"], rec["clause"], rec["loc"], rec["tags"])
        else:
            failed_by_fn.setdefault(rec["qname"], []).append(rec)
    und_by_fn = {}
    for q, reason in undecided_all:
        und_by_fn.setdefault(q, []).append(reason)

    # triage of failed / undecided functions: concrete witness on the real code, else report the obligation
    for q in sorted(set(failed_by_fn) | set(und_by_fn)):
        c = REG.get(q)
        w, stats = witness.search(c, budget_s=8.0 if tier == "quick" else 30.0, seed=R.seed)
        fails = failed_by_fn.get(q, [])
        names = sorted({r_["name"] for r_ in fails})
        solver_out = [{"obligation": r_["name"], "case": r_["case"], "status": r_["status"], "backend": r_["backend"],
                       "reason": r_["reason"], "clause": r_["clause"], "loc": r_["loc"]} for r_ in fails][:12]
        if w is not None:
            lab = w["failed"].get("label", "?")
            R.violation(f"K.{q.replace('pyvolutionary.', '')}", f"contract of {q} fails on the real code: {w['failed'].get('clause', '')[:200]}",
                        {"replay_kind": "witness", "witness": w, "failed_obligations": names, "solver": solver_out})
            for r_ in fails:
                R.obligation(r_["name"], r_["kind"], "refuted", "VC", r_["backend"], r_["time"], r_["clause"], r_["loc"])
            continue
        searched = stats.get("ran", 0) > 0
        definite = [x for x in fails if x["status"] == "sat"]
        if definite:
            for r_ in fails:
                R.obligation(r_["name"], r_["kind"], "refuted", "VC", r_["backend"], r_["time"], r_["clause"], r_["loc"])
            R.violation(f"K.{q.replace('pyvolutionary.', '')}", f"obligations of {q} refuted by the solver: {', '.join(names)[:300]}",
                        {"replay_kind": "none", "failed_obligations": names, "solver": solver_out, "witness_search": stats},
                        no_input=True)
        elif fails:
            if searched:
                R.degraded.append({"what": ",".join(names)[:300], "why": f"solver undecided; small-scope run-time contract search clean "
                                   f"({stats.get('ran')} executions of the real function)"})
                R.bounded[f"witness:{q}"] = {"evaluations": stats.get("ran", 0), "distinct_nontrivial": stats.get("ran", 0),
                                             "rule": "enumerated small inputs by parameter type; case counted when the precondition holds",
                                             "bound": "list sizes <= 4, cost alphabet {0,1,-1,2.5,inf,-inf}"}
            else:
                for r_ in fails:
                    R.obligation(r_["name"], r_["kind"], "refuted", "VC", r_["backend"], r_["time"], r_["clause"], r_["loc"])
                R.violation(f"K.{q.replace('pyvolutionary.', '')}", f"obligations of {q} no longer discharged: {', '.join(names)[:300]}",
                            {"replay_kind": "none", "failed_obligations": names, "solver": solver_out, "witness_search": stats},
                            no_input=True)
        for reason in und_by_fn.get(q, []):
            if reason == "target-missing":
                R.undecided.append({"what": q, "reason": "target-missing: the function under contract no longer exists"})
            elif searched:
                R.degraded.append({"what": q, "why": f"{reason}; run-time contract search clean ({stats.get('ran')} executions)"})
                R.bounded[f"witness:{q}"] = {"evaluations": stats.get("ran", 0), "distinct_nontrivial": stats.get("ran", 0),
                                             "rule": "enumerated small inputs by parameter type", "bound": "list sizes <= 4"}
            else:
                # The function can no longer be brought under its contract (a construct outside the verifiable subset
                # appeared) and there is no run-time generator for its signature: its obligations are *undecided*, not
                # refuted.  The verdict for the property then rests on the bounded components of the same check (campaign /
                # laws / scenarios run against the same tree and report on their own); the loss of the proof is reported.
                R.degraded.append({"what": q, "why": f"{reason}; obligations cannot be generated any more: proved->bounded, "
                                   "decided by the bounded campaign of this property"})
    for q_, c_ in sorted(REG.contracts.items()):
        if not c_.verify:
            R.assume(f"assumed contract (not verified): {q_.replace('pyvolutionary.', '')} - {c_.assumed_reason}")
    R.trust(*TRUSTED_VC)
    for t in sorted(tags):
        if t.startswith("A_object_invariant:"):
            R.assume("object invariant assumed at entry of the methods verified under it (established by the constructors, no writer in the "
                     "package; constructors of the variable classes: bounded law campaign): " + t.split(":", 1)[1])
        elif t.startswith("A_not_overridden:"):
            R.assume("contract-less method executed in place because no class of the package overrides it: " + t.split(":", 1)[1])
        else:
            R.assume(TAG_TEXT.get(t, t))
    return eng


TAG_TEXT = {
    "A_real": "A_real: float + - * on this path are interpreted over the reals (comparisons, negation and abs are exact on non-NaN doubles)",
    "A_nonan_costs": "costs are not NaN (an objective returning NaN is outside a valid task)",
    "AX_stable_sort": "CPython list.sort(key, reverse) realises the unique stable sorting permutation (sigma axioms: bijection, order, stability)",
    "AX_numpy_argsort": "np.argsort returns a sorting permutation (no stability assumed)",
    "LEMMA_L1_sorted_arrangements_coincide": "Lemma L1: two sorted arrangements of one finite multiset have equal keys position-wise (lemmas/L1.lean)",
    "AX_pydantic_model_copy": "pydantic model_copy(update=u): fresh shallow copy, exactly u overridden, no validation",
    "AX_concurrent_futures": "as_completed yields every submitted future exactly once in some order; Future.result() returns the callable's value",
    "AX_numpy_average_is_a_function_of_the_elements": "np.average is a deterministic function of the sequence's elements",
    "AX_numpy_dot_is_a_function_of_the_elements": "np.dot of two float vectors is a deterministic function of their elements",
    "AX_numpy_dot_of_negated_vector_is_negated_and_dot_commutes": "np.dot(-a, w) = -np.dot(a, w) = np.dot(a, -w) and np.dot(a, w) = np.dot(w, a) "
                                                                  "(IEEE negation is exact, rounding is symmetric, same summation order)",
    "AX_numpy_array_keeps_the_elements": "np.array(sequence of scalars) is a fresh array with the same elements in the same order",
    "AX_prefix_sums": "prefix sums fsum and the segment function segf of a concatenation: recurrence, monotonicity, existence and uniqueness "
                      "of the owning segment (lemmas/L2.lean, checked by the thorough tier of C14)",
    "AX_pydantic_constructor": "BaseModel.__init__(**kw): declared fields set from kw (lists copied, None kept), defaults otherwise, then the "
                               "validators of the class (each under its own contract)",
    "AX_numpy_uniform_within_bounds": "np.random.uniform(lo, hi) lies in [lo, hi]; np.random.random() in [0, 1)",
    "AX_numpy_any_is_exists": "np.any(sequence of booleans) is true iff some element is (False for the empty sequence)",
    "AX_numpy_all_is_forall": "np.all(sequence of booleans) is true iff every element is (True for the empty sequence)",
    "AX_numpy_compare_elementwise": "ndarray <, <=, >, >= scalar is the fresh boolean array of the element-wise comparisons",
    "AX_numpy_arith_elementwise": "scalar +, -, * ndarray (either order) is the fresh array of the element-wise results (real arithmetic)",
    "AX_numpy_zeros": "np.zeros(n), n >= 0: a fresh float array of n zeros",
    "AX_numpy_ones": "np.ones(n), n >= 0: a fresh float array of n ones",
}


def _prune(d, keep):
    """keep the most recently used entries of a cache directory"""
    try:
        ents = sorted((os.path.join(d, x) for x in os.listdir(d)), key=os.path.getmtime, reverse=True)
        import shutil
        for old in ents[keep:]:
            shutil.rmtree(old, ignore_errors=True) if os.path.isdir(old) else os.unlink(old)
    except OSError:
        pass


def _cache_key(eng, tier):
    """results are reused only for identical inputs: every top-level module of the package (all functions under contract and
    everything they call live there; the optimizer sub-packages are never read by the VC generator: hooks are abstract
    contracts), the verifier, the contracts"""
    import hashlib, glob
    h = hashlib.sha256()
    h.update(tier.encode())
    for m in sorted(eng.src.modules):
        if m.count(".") <= 1:
            h.update(m.encode())
            h.update(eng.src.modules[m].sha256.encode())
    for f in sorted(glob.glob(os.path.join(VERIF, "pyvc", "*.py")) + glob.glob(os.path.join(VERIF, "contracts", "*.py"))):
        h.update(open(f, "rb").read())
    return h.hexdigest()[:24]


def run(pid, tier, seed, bnd=True):
    R = Report(pid, tier, seed)
    from . import propdefs
    propdefs.compose(R, pid, tier, seed, bnd)
    base = {}
    bp = os.path.join(VERIF, "baseline_obligations.json")
    if os.path.exists(bp):
        base = json.load(open(bp)).get(pid, {})
    # every obligation name discharged on the committed baseline must still be generated (else target drifted)
    have = {o["name"] for o in R.obls}
    missing = [n for n in base.get("names", []) if n not in have]
    gone = [m for m in missing if not any(m.split(":")[0].rsplit(".", 1)[0] in (u["what"] + " " + d_["what"]) for u in R.undecided for d_ in [{"what": ""}])]
    if missing and not R.violations and not R.undecided and not R.degraded:
        R.undecided.append({"what": ",".join(missing[:5]), "reason": f"{len(missing)} baseline obligations were not generated"})
    return R.finish(level=propdefs.LEVEL.get(pid, "proof"), min_obligations=base.get("min", 1))
