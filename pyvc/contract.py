"""Contract registry (sidecar specifications keyed by the qualified name of the real function)."""
from __future__ import annotations
from dataclasses import dataclass, field


@dataclass
class Contract:
    qname: str
    params: dict = field(default_factory=dict)       # name -> type string
    returns: str | None = None
    requires: list = field(default_factory=list)     # python expressions (strings); may be (label, expr)
    ensures: list = field(default_factory=list)
    assigns: list = field(default_factory=list)      # 'self.f', 'content(x)', 'field:f', '*'
    raises: dict = field(default_factory=dict)       # exc name -> condition expr (iff); evaluated in the pre-state
    raises_ensures: dict = field(default_factory=dict)  # exc name -> list of clauses that hold when raised
    invariants: dict = field(default_factory=dict)   # 'loop1' -> list of expr
    decreases: dict = field(default_factory=dict)    # 'loop1' -> expr
    loop_assigns: dict = field(default_factory=dict)
    float_mode: str = "real"
    cases: list = field(default_factory=list)        # list of dict param-> type overrides (type case split)
    allocates: bool = True
    fresh_result: bool = False
    verify: bool = True                              # False: assumed contract (abstract hook / dependency)
    assumed_reason: str = ""
    properties: list = field(default_factory=list)   # property ids served
    ghost: dict = field(default_factory=dict)
    lets: dict = field(default_factory=dict)         # name -> expr, evaluated in the pre-state, usable in clauses
    tags: list = field(default_factory=list)
    ghost_out: dict = field(default_factory=dict)    # name -> lambda source (Int -> Int), defined over the locals at exit
    locals: dict = field(default_factory=dict)       # local variable name -> type (for `x = []`)
    pure_result: bool = False                        # result is a deterministic function of arguments (no heap)
    ensures_when: dict = field(default_factory=dict)  # 'then' / 'else' -> clauses, for returns={'when': cond, 'then': t, 'else': t}
    entry_invariants: list = field(default_factory=list)  # object invariants assumed at entry when the body is verified (not at call sites)
    arg_shape_when: dict = field(default_factory=dict)   # {'then': {'value': ['list', 'nd']}, 'else': {...}}: the kind of argument the alternative of `returns.when` takes (a requires clause on the argument's dynamic type)
    requires_when: dict = field(default_factory=dict)    # requires clauses of one alternative of `returns.when` (asserted after the argument-shape check)
    hints: list = field(default_factory=list)        # proof hints (sound by construction): 'eager-inst'

    def labelled(self, which):
        out = []
        for i, c in enumerate(getattr(self, which)):
            if isinstance(c, tuple):
                out.append(c)
            else:
                out.append((f"{which}{i + 1}", c))
        return out


class Registry:
    def __init__(self):
        self.contracts: dict[str, Contract] = {}
        self.field_types: dict[str, str] = {}
        self.class_fields: dict[str, dict] = {}
        self.lemmas: list = []                      # (name, property ids, callable(engine)->obligations)

    def contract(self, qname, **kw):
        c = Contract(qname, **kw)
        self.contracts[qname] = c
        return c

    def fields(self, cls, **kw):
        self.class_fields.setdefault(cls, {}).update(kw)
        for k, v in kw.items():
            if k in self.field_types and self.field_types[k] != v:
                raise ValueError(f"field {k} declared with two types: {self.field_types[k]} / {v}")
            self.field_types[k] = v

    def get(self, qname):
        return self.contracts.get(qname)


REG = Registry()
contract = REG.contract
fields = REG.fields
