"""Assumed contracts of dependencies (numpy, pydantic, concurrent.futures) in symbolic form - DESIGN §6."""
from __future__ import annotations
import z3
from .types import parse_type, is_ref
from .state import V, NONE, State, Unsupported, PathEnd, PyRaise, static, is_static, _key
from .builtins import BuiltinMixin

LIB = BuiltinMixin.LIBRARY
EXT = BuiltinMixin.EXTERNAL_METHODS


def _copy_fields_of(eng, st, cls_name):
    """declared (view + extra) fields of a class and of its ancestors that have declarations"""
    names = []
    ci = eng.src.resolve_class(cls_name, eng.cur_mod.name)
    chain = [c.name for c in eng.src.mro(ci)] if ci is not None else [cls_name]
    for cn in chain:
        for f in eng.reg.class_fields.get(cn, {}):
            if f not in names:
                names.append(f)
    return names


def ext_model_copy(eng, st, recv, args, kw, node):
    """pydantic: model_copy(update=u) returns a fresh shallow copy with exactly the keys of u overridden, no validation"""
    upd = kw.get("update")
    if upd is not None and not is_static(upd, "sdict"):
        raise Unsupported("model_copy(update=<non-literal>)")
    ref = st.new_ref("copy")
    new = V(recv.t, ref)
    for f in _copy_fields_of(eng, st, recv.t[1]):
        st.write_field(new, f, st.read_field(recv, f))
    for k, v in (upd.items if upd is not None else {}).items():
        st.write_field(new, k, v)
    eng.ctx.tags.add("AX_pydantic_model_copy")
    return new


EXT["model_copy"] = ext_model_copy
EXT["copy"] = ext_model_copy


def ext_future_result(eng, st, recv, args, kw, node):
    if recv.t != ("obj", "Future"):
        raise Unsupported(f"result() on {recv.t}")
    eng.ctx.tags.add("AX_concurrent_futures")
    return st.read_field(recv, "value")


EXT["result"] = ext_future_result


def lib_as_completed(eng, st, args, kw, node):
    """as_completed(fs) yields each future exactly once, in some order: a fresh sequence that is `fs` rearranged by
    the bijection completion(fs, .) - an arbitrary but fixed permutation (the schedule)."""
    fs = args[0]
    n = st.seq_len(fs)
    pi, inv = completion_instance(eng, st, fs)
    src = st.seq_elems(fs)
    arr = eng.ctx.fresh_z("completed", src.sort())
    k = z3.Int(eng.ctx.fresh_name("k"))
    st.assume(z3.ForAll([k], z3.Implies(z3.And(k >= 0, k < n), arr[k] == src[pi(k)]), patterns=[arr[k]]))
    eng.ctx.tags.add("AX_concurrent_futures")
    return st.new_seq(fs.t[1], "list", n, arr, "completed")


def completion_instance(eng, st, fs):
    n = st.seq_len(fs)
    ck = ("completion", fs.z.sexpr())
    hit = eng._axiom_cache.get(ck)
    if hit is None:
        nm = eng.ctx.fresh_name("completion")
        P = z3.Function("completion", z3.IntSort(), z3.IntSort(), z3.IntSort())
        Q = z3.Function("completion_inv", z3.IntSort(), z3.IntSort(), z3.IntSort())
        pi = lambda x: P(fs.z, x)
        inv = lambda x: Q(fs.z, x)
        k, j = z3.Ints(f"{nm}_k {nm}_j")
        inr = lambda x: z3.And(x >= 0, x < n)
        ax = [z3.ForAll([k], z3.Implies(inr(k), z3.And(inr(pi(k)), inv(pi(k)) == k)), patterns=[pi(k)]),
              z3.ForAll([j], z3.Implies(inr(j), z3.And(inr(inv(j)), pi(inv(j)) == j)), patterns=[inv(j)])]
        hit = (nm, pi, inv, ax)
        eng._axiom_cache[ck] = hit
    nm, pi, inv, ax = hit
    if nm not in st.axs:
        st.axs.add(nm)
        for a in ax:
            st.assume(a)
            eng._axiom_ids.add(a.get_id())
    return pi, inv


LIB[("concurrent.futures", "as_completed")] = lib_as_completed


def lib_np_argsort(eng, st, args, kw, node):
    """np.argsort(keys): a permutation of range(n) along which keys are non-decreasing (no stability assumed)."""
    keys = args[0]
    if keys.t[0] not in ("list", "nd") or keys.t[1][0] not in ("float", "int"):
        raise Unsupported(f"argsort of {keys.t}")
    n = st.seq_len(keys)
    K = st.seq_elems(keys)
    asig, ainv = argsort_instance(eng, st, K, n)
    arr = eng.ctx.fresh_z("argsort", z3.ArraySort(z3.IntSort(), z3.IntSort()))
    k = z3.Int(eng.ctx.fresh_name("k"))
    st.assume(z3.ForAll([k], z3.Implies(z3.And(k >= 0, k < n), arr[k] == asig(k)), patterns=[arr[k]]))
    eng.ctx.tags.add("AX_numpy_argsort")
    eng.ctx.tags.add("A_nonan_costs")
    return st.new_seq(("int",), "nd", n, arr, "argsort")


def argsort_instance(eng, st, K, n):
    ck = ("argsort", K.sexpr(), n.sexpr())
    hit = eng._axiom_cache.get(ck)
    if hit is None:
        nm = eng.ctx.fresh_name("asig")
        F = z3.Function("argsort", K.sort(), z3.IntSort(), z3.IntSort(), z3.IntSort())
        G = z3.Function("argsort_inv", K.sort(), z3.IntSort(), z3.IntSort(), z3.IntSort())
        sig = lambda x: F(K, n, x)
        inv = lambda x: G(K, n, x)
        k, k2, j = z3.Ints(f"{nm}_k {nm}_k2 {nm}_j")
        inr = lambda x: z3.And(x >= 0, x < n)
        ax = [z3.ForAll([k], z3.Implies(inr(k), z3.And(inr(sig(k)), inv(sig(k)) == k)), patterns=[sig(k)]),
              z3.ForAll([j], z3.Implies(inr(j), z3.And(inr(inv(j)), sig(inv(j)) == j)), patterns=[inv(j)]),
              z3.ForAll([k, k2], z3.Implies(z3.And(inr(k), inr(k2), k < k2), K[sig(k)] <= K[sig(k2)]),
                        patterns=[z3.MultiPattern(sig(k), sig(k2))])]
        # Lemma L1 (Lean-checked, lemmas/L1.lean): two non-decreasing arrangements of one finite multiset coincide,
        # hence the k-th key along argsort equals the k-th key along the stable sort, and the descending stable
        # arrangement is the reverse of the ascending one key-wise.
        inst = eng.sigma_instance(st, K, n)
        sa, sd = inst["asc"][0], inst["desc"][0]
        ax.append(z3.ForAll([k], z3.Implies(inr(k), z3.And(K[sig(k)] == K[sa(k)], K[sd(k)] == K[sa(n - 1 - k)])),
                            patterns=[sig(k)]))
        eng.ctx.tags.add("LEMMA_L1_sorted_arrangements_coincide")
        hit = (nm, sig, inv, ax)
        eng._axiom_cache[ck] = hit
    nm, sig, inv, ax = hit
    if nm not in st.axs:
        st.axs.add(nm)
        eng.sigma_instance(st, K, n)
        for a in ax:
            st.assume(a)
            eng._axiom_ids.add(a.get_id())
    return sig, inv


LIB[("numpy", "argsort")] = lib_np_argsort


def seq_mean(eng, st, seq: V):
    """np.average / mean of a float sequence: an opaque deterministic function of the first len elements"""
    K, n = st.seq_elems(seq), st.seq_len(seq)
    f = z3.Function("mean", K.sort(), z3.IntSort(), eng.ctx.fsort())
    eng.ctx.tags.add("AX_numpy_average_is_a_function_of_the_elements")
    return V(("float",), f(K, n))


def lib_np_average(eng, st, args, kw, node):
    v = args[0]
    if v.t[0] not in ("list", "nd") or v.t[1][0] != "float":
        raise Unsupported(f"np.average of {v.t}")
    if not eng.spec_mode:
        eng.safety(st, st.seq_len(v) > 0, "mean-of-empty", node, "np.average of an empty sequence is NaN (warning) - required non-empty")
    return seq_mean(eng, st, v)


LIB[("numpy", "average")] = lib_np_average
