"""Assumed contracts of dependencies (numpy, pydantic, concurrent.futures) in symbolic form - DESIGN §6."""
from __future__ import annotations
import z3
from .types import parse_type, is_ref
from .qf import qforall
from .state import V, NONE, State, Unsupported, PathEnd, PyRaise, static, is_static, _key
from .builtins import BuiltinMixin

LIB = BuiltinMixin.LIBRARY
EXT = BuiltinMixin.EXTERNAL_METHODS


def _copy_fields_of(eng, st, cls_name):
    """declared (view + extra) fields of a class and of its ancestors that have declarations"""
    names = []
    ci = eng.src.resolve_class(cls_name, eng.cur_mod.name)
    chain = [c.name for c in eng.src.mro(ci)] if ci is not None else [cls_name]
    for cn in chain:
        for f in eng.reg.class_fields.get(cn, {}):
            if f not in names:
                names.append(f)
    return names


def ext_model_copy(eng, st, recv, args, kw, node):
    """pydantic: model_copy(update=u) returns a fresh shallow copy with exactly the keys of u overridden, no validation"""
    upd = kw.get("update")
    if upd is not None and not is_static(upd, "sdict"):
        raise Unsupported("model_copy(update=<non-literal>)")
    ref = st.new_ref("copy")
    new = V(recv.t, ref)
    updk = set(upd.items) if upd is not None else set()
    for f in _copy_fields_of(eng, st, recv.t[1]):
        if f not in updk:
            st.init_field(new, f, st.read_field(recv, f))
    for k, v in (upd.items if upd is not None else {}).items():
        st.init_field(new, k, v)
    eng.ctx.tags.add("AX_pydantic_model_copy")
    return new


EXT["model_copy"] = ext_model_copy
EXT["copy"] = ext_model_copy


def ext_future_result(eng, st, recv, args, kw, node):
    if recv.t != ("obj", "Future"):
        raise Unsupported(f"result() on {recv.t}")
    eng.ctx.tags.add("AX_concurrent_futures")
    return st.read_field(recv, "value")


EXT["result"] = ext_future_result


def lib_as_completed(eng, st, args, kw, node):
    """as_completed(fs) yields each future exactly once, in some order: a fresh sequence that is `fs` rearranged by
    the bijection completion(fs, .) - an arbitrary but fixed permutation (the schedule)."""
    fs = args[0]
    n = st.seq_len(fs)
    pi, inv = completion_instance(eng, st, fs)
    src = st.seq_elems(fs)
    arr = eng.ctx.fresh_z("completed", src.sort())
    k = z3.Int(eng.ctx.fresh_name("k"))
    st.assume(qforall([k], z3.Implies(z3.And(k >= 0, k < n), arr[k] == src[pi(k)]), patterns=[arr[k]]))
    eng.ctx.tags.add("AX_concurrent_futures")
    return st.new_seq(fs.t[1], "list", n, arr, "completed")


def completion_instance(eng, st, fs):
    n = st.seq_len(fs)
    ck = ("completion", fs.z.sexpr())
    hit = eng._axiom_cache.get(ck)
    if hit is None:
        nm = eng.ctx.fresh_name("completion")
        P = z3.Function("completion", z3.IntSort(), z3.IntSort(), z3.IntSort())
        Q = z3.Function("completion_inv", z3.IntSort(), z3.IntSort(), z3.IntSort())
        pi = lambda x: P(fs.z, x)
        inv = lambda x: Q(fs.z, x)
        k, j = z3.Ints(f"{nm}_k {nm}_j")
        inr = lambda x: z3.And(x >= 0, x < n)
        ax = [qforall([k], z3.Implies(inr(k), z3.And(inr(pi(k)), inv(pi(k)) == k)), patterns=[pi(k)]),
              qforall([j], z3.Implies(inr(j), z3.And(inr(inv(j)), pi(inv(j)) == j)), patterns=[inv(j)])]
        hit = (nm, pi, inv, ax)
        eng._axiom_cache[ck] = hit
    nm, pi, inv, ax = hit
    if nm not in st.axs:
        st.axs.add(nm)
        for a in ax:
            st.assume(a)
            eng._axiom_ids.add(a.get_id())
    return pi, inv


LIB[("concurrent.futures", "as_completed")] = lib_as_completed


def lib_np_argsort(eng, st, args, kw, node):
    """np.argsort(keys): a permutation of range(n) along which keys are non-decreasing (no stability assumed)."""
    keys = args[0]
    if keys.t[0] not in ("list", "nd") or keys.t[1][0] not in ("float", "int"):
        raise Unsupported(f"argsort of {keys.t}")
    n = st.seq_len(keys)
    K = st.seq_elems(keys)
    asig, ainv = argsort_instance(eng, st, K, n)
    arr = eng.ctx.fresh_z("argsort", z3.ArraySort(z3.IntSort(), z3.IntSort()))
    k = z3.Int(eng.ctx.fresh_name("k"))
    st.assume(qforall([k], z3.Implies(z3.And(k >= 0, k < n), arr[k] == asig(k)), patterns=[arr[k]]))
    eng.ctx.tags.add("AX_numpy_argsort")
    eng.ctx.tags.add("A_nonan_costs")
    return st.new_seq(("int",), "nd", n, arr, "argsort")


def argsort_instance(eng, st, K, n):
    ck = ("argsort", K.sexpr(), n.sexpr())
    hit = eng._axiom_cache.get(ck)
    if hit is None:
        nm = eng.ctx.fresh_name("asig")
        F = z3.Function("argsort", K.sort(), z3.IntSort(), z3.IntSort(), z3.IntSort())
        G = z3.Function("argsort_inv", K.sort(), z3.IntSort(), z3.IntSort(), z3.IntSort())
        sig = lambda x: F(K, n, x)
        inv = lambda x: G(K, n, x)
        k, k2, j = z3.Ints(f"{nm}_k {nm}_k2 {nm}_j")
        inr = lambda x: z3.And(x >= 0, x < n)
        ax = [qforall([k], z3.Implies(inr(k), z3.And(inr(sig(k)), inv(sig(k)) == k)), patterns=[sig(k)]),
              qforall([j], z3.Implies(inr(j), z3.And(inr(inv(j)), sig(inv(j)) == j)), patterns=[inv(j)]),
              qforall([k, k2], z3.Implies(z3.And(inr(k), inr(k2), k < k2), K[sig(k)] <= K[sig(k2)]),
                        patterns=[z3.MultiPattern(sig(k), sig(k2))])]
        # Lemma L1 (Lean-checked, lemmas/L1.lean): two non-decreasing arrangements of one finite multiset coincide,
        # hence the k-th key along argsort equals the k-th key along the stable sort, and the descending stable
        # arrangement is the reverse of the ascending one key-wise.
        inst = eng.sigma_instance(st, K, n)
        sa, sd = inst["asc"][0], inst["desc"][0]
        ax.append(qforall([k], z3.Implies(inr(k), K[sig(k)] == K[sa(k)]), patterns=[sig(k), sa(k)]))
        ax.append(qforall([k], z3.Implies(inr(k), K[sd(k)] == K[sa(n - 1 - k)]), patterns=[sd(k)]))
        eng.ctx.tags.add("LEMMA_L1_sorted_arrangements_coincide")
        hit = (nm, sig, inv, ax)
        eng._axiom_cache[ck] = hit
    nm, sig, inv, ax = hit
    if nm not in st.axs:
        st.axs.add(nm)
        eng.sigma_instance(st, K, n)
        for a in ax:
            st.assume(a)
            eng._axiom_ids.add(a.get_id())
    return sig, inv


LIB[("numpy", "argsort")] = lib_np_argsort


def seq_mean(eng, st, seq: V):
    """np.average / mean of a float sequence: an opaque deterministic function of the first len elements"""
    K, n = st.seq_elems(seq), st.seq_len(seq)
    f = z3.Function("mean", K.sort(), z3.IntSort(), eng.ctx.fsort())
    eng.ctx.tags.add("AX_numpy_average_is_a_function_of_the_elements")
    return V(("float",), f(K, n))


def lib_np_average(eng, st, args, kw, node):
    v = args[0]
    if v.t[0] not in ("list", "nd") or v.t[1][0] != "float":
        raise Unsupported(f"np.average of {v.t}")
    if not eng.spec_mode:
        eng.safety(st, st.seq_len(v) > 0, "mean-of-empty", node, "np.average of an empty sequence is NaN (warning) - required non-empty")
    return seq_mean(eng, st, v)


LIB[("numpy", "average")] = lib_np_average


def ext_submit(eng, st, recv, args, kw, node):
    """Executor.submit(f, *a): runs f(*a) exactly once (the callable's own contract gives the value) and returns a
    fresh Future holding it.  The callable must not write shared state (EFF POOL-pure), so the order is immaterial."""
    f = args[0]
    # RNG ownership: a callable that draws random numbers and runs in a *process* pool must establish its own stream
    # (forked workers start from a copy of the parent's generator state)
    if is_static(f, "bound") and f.items[0].t[0] == "obj" and "self" in st.env:
        ci_ = eng.src.resolve_class(f.items[0].t[1], eng.cur_mod.name)
        cc_ = eng.method_contract(ci_, f.items[1]) if ci_ else None
        if cc_ is not None and "rng" in cc_.assigns and not any("seeded_with" in e_ for _, e_ in cc_.labelled("ensures")):
            from .types import ENUM_MEMBERS
            mode = st.read_field(st.env["self"], "_mode")
            if eng.feasible(st, mode.z == ENUM_MEMBERS["ModeSolver"]["PROCESS"]):
                st.ghost["shared_stream_submit"] = f.items[1]
    val = eng.call_value(st, f, list(args[1:]), dict(kw), node)
    if val.t[0] != "obj":
        raise Unsupported("submit of a callable that does not return an object")
    fut = V(("obj", "Future"), st.new_ref("future"))
    st.init_field(fut, "value", V(("obj", "Agent"), val.z))
    eng.ctx.tags.add("AX_concurrent_futures")
    return fut


EXT["submit"] = ext_submit


# ---- pydantic model construction ------------------------------------------------------------------------------------------
def _declared_fields(eng, ci):
    """(name, annotation ast, default ast|None) of a pydantic model class, base classes first"""
    out = {}
    for c in reversed(eng.src.mro(ci)):
        for node in c.node.body:
            import ast as _ast
            if isinstance(node, _ast.AnnAssign) and isinstance(node.target, _ast.Name) and not node.target.id.startswith("_") \
                    and node.target.id != "model_config":
                out[node.target.id] = (node.annotation, node.value)
    return out


def construct(eng, st, ci, args, kw, node):
    """K(**kw) for a class of the repository.  A class with its own __init__ is called through that method's contract;
    a plain pydantic model gets the assumed constructor contract: fields equal the keyword values after the declared
    coercions (int -> float), list fields are copied into a fresh list (elements keep their identity)."""
    if args:
        raise Unsupported("positional constructor arguments")
    init = eng.src.find_method(ci, "__init__")
    if init is not None:
        c = eng.method_contract(ci, "__init__")
        if c is None:
            raise Unsupported(f"{ci.name}.__init__ has no contract")
        ref = V(("obj", ci.name), st.new_ref(ci.name.lower()))
        env = eng.bind_args(init[0], [], dict(kw), node, self_v=ref)
        # the object is fresh: its cells are unconstrained, so the `self.f` assigns of the constructor need no havoc
        eng.apply_contract(st, c, init[0], eng.src.modules[init[1].module], env, node, fresh_self=True)
        return ref
    ref = V(("obj", ci.name), st.new_ref(ci.name.lower()))
    pydantic_init(eng, st, ref, ci, kw, node)
    return ref


def pydantic_init(eng, st, ref, ci, kw, node):
    """BaseModel.__init__(**kw): declared fields are set from kw (lists copied, int -> float), unknown keys ignored,
    then the validators of the class run."""
    decl = _declared_fields(eng, ci)
    for name, (ann, default) in decl.items():
        if name not in eng.reg.field_types:
            raise Unsupported(f"field {ci.name}.{name} is not declared in the contracts")
        if name in kw:
            v = kw[name]
            ft = st.field_type(name)
            base = ft[1] if ft[0] == "opt" else ft
            if base[0] == "list" and v.t[0] in ("list", "nd"):
                nv_ = st.new_seq(base[1], "list", st.seq_len(v), st.seq_elems(v), "field")   # pydantic copies lists
                nv_.none = v.none                                                              # (None stays None)
                v = nv_
            st.init_field(ref, name, v)
        elif default is not None:
            st.init_field(ref, name, eng.eval(st, default))
        else:
            raise Unsupported(f"missing required field {name} of {ci.name}")
    # validators of the class run after the fields are set; each must have a contract with a `raises` clause
    import ast as _ast
    for c_ in eng.src.mro(ci):
        for mname, m in c_.methods.items():
            decs = [d for d in m.decorator_list if isinstance(d, _ast.Call) and getattr(d.func, "id", "") in ("field_validator", "model_validator")]
            if not decs:
                continue
            vc = eng.reg.get(f"{c_.qname}.{mname}")
            if vc is None:
                raise Unsupported(f"validator {c_.name}.{mname} has no contract")
            d = decs[0]
            if d.func.id == "field_validator":
                fname = d.args[0].value
                env = {"cls": static("class", ci), "v": st.read_field(ref, fname)}
            else:
                env = {"self": ref}
            eng.apply_contract(st, vc, m, eng.src.modules[c_.module], env, node)
    eng.ctx.tags.add("AX_pydantic_constructor")


def super_call(eng, st, recv, name, args, kw, node):
    self_v, cls = recv.items
    if name != "__init__" or args:
        raise Unsupported(f"super().{name}")
    mro = eng.src.mro(cls)
    for c in mro[1:]:
        if "__init__" in c.methods:
            k = eng.reg.get(f"{c.qname}.__init__")
            if k is None:
                raise Unsupported(f"{c.name}.__init__ has no contract")
            env = eng.bind_args(c.methods["__init__"], [], dict(kw), node, self_v=self_v)
            eng.apply_contract(st, k, c.methods["__init__"], eng.src.modules[c.module], env, node)
            return NONE
    # no __init__ in the repository above this class: pydantic's BaseModel.__init__ (or object)
    if any("BaseModel" in c.bases for c in mro):
        pydantic_init(eng, st, self_v, cls, kw, node)
    return NONE


BuiltinMixin.super_call = super_call


BuiltinMixin.construct = construct


def lib_np_dot(eng, st, args, kw, node):
    a, b = args
    if a.t[0] in ("list", "nd") and b.t[0] in ("list", "nd"):
        f = z3.Function("dot", st.seq_elems(a).sort(), st.seq_elems(b).sort(), z3.IntSort(), eng.ctx.fsort())
        eng.ctx.tags.add("AX_numpy_dot_is_a_function_of_the_elements")
        ea, eb, n = st.seq_elems(a), st.seq_elems(b), st.seq_len(a)
        real_arr = z3.ArraySort(z3.IntSort(), z3.RealSort())
        if ea.sort() == real_arr and eb.sort() == real_arr:
            # assumed properties of np.dot on float vectors (IEEE negation is exact, rounding is symmetric, products commute
            # and the summation order is the same): dot(-a, w) == -dot(a, w) == dot(a, -w); dot(a, w) == dot(w, a)
            neg = z3.Function("negarr", real_arr, real_arr)
            k = z3.Int(eng.ctx.fresh_name("ng"))
            for e_ in (ea, eb):
                st.assume(qforall([k], neg(e_)[k] == -e_[k], patterns=[neg(e_)[k]]))
            st.assume(f(neg(ea), eb, n) == -f(ea, eb, n))
            st.assume(f(ea, neg(eb), n) == -f(ea, eb, n))
            xa, xb, xn = z3.Const("dot_a", real_arr), z3.Const("dot_b", real_arr), z3.Int("dot_n")
            st.assume(qforall([xa, xb, xn], f(xa, xb, xn) == f(xb, xa, xn), patterns=[f(xa, xb, xn)]))
            eng.ctx.tags.add("AX_numpy_dot_of_negated_vector_is_negated_and_dot_commutes")
        return V(("float",), f(ea, eb, n))
    raise Unsupported(f"np.dot of {a.t} and {b.t}")


LIB[("numpy", "dot")] = lib_np_dot


def lib_np_array(eng, st, args, kw, node):
    """np.array(sequence of scalars): a fresh array with the same elements in the same order (value conversion between
    python and numpy scalars is the identity of the abstract value sort)"""
    a = args[0]
    if len(args) == 1 and not kw and a.t[0] in ("list", "nd") and a.t[1][0] in ("val", "float", "int", "bool"):
        eng.ctx.tags.add("AX_numpy_array_keeps_the_elements")
        return st.new_seq(a.t[1], "nd", st.seq_len(a), st.seq_elems(a), "nparray")
    raise Unsupported(f"np.array of {a.t}")


LIB[("numpy", "array")] = lib_np_array


def lib_np_any(eng, st, args, kw, node):
    """np.any(array of booleans): some element is true (False for the empty array)"""
    a = args[0]
    if len(args) == 1 and not kw and a.t[0] in ("list", "nd") and a.t[1][0] == "bool":
        eng.ctx.tags.add("AX_numpy_any_is_exists")
        i = z3.Int(eng.ctx.fresh_name("anyi"))
        el = st.seq_elems(a)
        return V(("bool",), z3.Exists([i], z3.And(i >= 0, i < st.seq_len(a), el[i])))
    raise Unsupported(f"np.any of {a.t}")


LIB[("numpy", "any")] = lib_np_any


def lib_np_all(eng, st, args, kw, node):
    """np.all(array of booleans): every element is true (True for the empty array)"""
    a = args[0]
    if len(args) == 1 and not kw and a.t[0] in ("list", "nd") and a.t[1][0] == "bool":
        eng.ctx.tags.add("AX_numpy_all_is_forall")
        i = z3.Int(eng.ctx.fresh_name("alli"))
        el = st.seq_elems(a)
        return V(("bool",), qforall([i], z3.Implies(z3.And(i >= 0, i < st.seq_len(a)), el[i])))
    raise Unsupported(f"np.all of {a.t}")


LIB[("numpy", "all")] = lib_np_all


def _np_const_array(value, tag):
    def lib(eng, st, args, kw, node):
        """np.zeros(n) / np.ones(n) with an integer n >= 0: a fresh float array of n equal elements"""
        if len(args) == 1 and not kw and args[0].t[0] == "int" and eng.ctx.float_mode != "fp":
            eng.ctx.tags.add(tag)
            eng.safety(st, args[0].z >= 0, "negative-dimension", node)
            v = st.new_seq(("float",), "nd", args[0].z, z3.K(z3.IntSort(), z3.RealVal(value)), "npconst")
            if not hasattr(eng.ctx, "const_arrays"):
                eng.ctx.const_arrays = {}
            eng.ctx.const_arrays[v.z.get_id()] = (value, v.z)      # a fresh, not yet mutated array of equal elements
            return v
        raise Unsupported(f"np.zeros / np.ones of {[a.t for a in args]}")
    return lib


LIB[("numpy", "zeros")] = _np_const_array(0, "AX_numpy_zeros")
LIB[("numpy", "ones")] = _np_const_array(1, "AX_numpy_ones")
def lib_deepcopy(eng, st, args, kw, node):
    """copy.deepcopy of an immutable scalar is the value itself; of a flat sequence of scalars a fresh sequence with the same elements"""
    v = args[0]
    if v.t[0] in ("str", "int", "float", "bool", "enum", "none"):
        return v
    if v.t[0] in ("list", "nd") and v.t[1][0] in ("str", "int", "float", "bool", "val"):
        return st.new_seq(v.t[1], v.t[0], st.seq_len(v), st.seq_elems(v), "deepcopy")
    raise Unsupported(f"deepcopy of {v.t}")


LIB[("copy", "deepcopy")] = lib_deepcopy
LIB[("numpy", "finfo")] = lambda eng, st, args, kw, node: static("finfo", None)


def lib_np_random_seed(eng, st, args, kw, node):
    """np.random.seed(s): None, or an integer in [0, 2**32); a float raises TypeError, an out-of-range int ValueError"""
    s = args[0]
    eng.ctx.tags.add("AX_numpy_legacy_rng_seeded_by_seed")
    # ghost: the argument of the last seeding call, and whether a random draw preceded it on this path
    st.ghost["seed_arg"] = s
    st.ghost["seeded_before_draw"] = not st.ghost.get("rng_used", False)
    if s.t[0] == "none":
        return NONE
    isnone = s.none if s.none is not None else z3.BoolVal(False)
    if s.t[0] == "float":
        if eng.choose(st, z3.Not(isnone)):
            raise PyRaise("TypeError", eng.loc(node))
        return NONE
    if s.t[0] == "int":
        if eng.choose(st, z3.And(z3.Not(isnone), z3.Or(s.z < 0, s.z >= 2 ** 32))):
            raise PyRaise("ValueError", eng.loc(node))
        st.ghost["seeded"] = True
        return NONE
    raise Unsupported(f"np.random.seed({s.t})")


LIB[("numpy.random", "seed")] = lib_np_random_seed


def lib_np_random_randint(eng, st, args, kw, node):
    """np.random.randint(lo, hi, size=n): n integers in [lo, hi) drawn from the global stream"""
    lo, hi = args[0], args[1]
    size = kw.get("size")
    st.ghost["rng_used"] = True
    if size is None:
        r = eng.ctx.fresh("randint", ("int",))
        st.assume(z3.And(r.z >= lo.z, r.z < hi.z))
        return r
    arr = eng.ctx.fresh_z("randints", z3.ArraySort(z3.IntSort(), z3.IntSort()))
    k = z3.Int(eng.ctx.fresh_name("k"))
    n = z3.If(size.z > 0, size.z, 0)
    st.assume(qforall([k], z3.Implies(z3.And(k >= 0, k < n), z3.And(arr[k] >= lo.z, arr[k] < hi.z)), patterns=[arr[k]]))
    return st.new_seq(("int",), "nd", z3.simplify(n), arr, "randints")


LIB[("numpy.random", "randint")] = lib_np_random_randint


def lib_np_clip(eng, st, args, kw, node):
    """np.clip(x, lo, hi) on scalars = minimum(maximum(x, lo), hi); NaN propagates"""
    x, lo, hi = [eng.num(st, a, node) for a in args[:3]]
    if x.t[0] == "int" and lo.t[0] == "int" and hi.t[0] == "int":
        m = z3.If(x.z < lo.z, lo.z, x.z)
        return V(("int",), z3.If(m > hi.z, hi.z, m))
    xf, lf, hf = st.to_float(x).z, st.to_float(lo).z, st.to_float(hi).z
    eng.ctx.tags.add("AX_numpy_clip_is_min_max")
    if eng.ctx.float_mode == "fp":
        m = z3.If(z3.fpLT(xf, lf), lf, xf)
        r = z3.If(z3.fpGT(m, hf), hf, m)
        return V(("float",), z3.If(z3.fpIsNaN(xf), xf, r))
    m = z3.If(xf < lf, lf, xf)
    return V(("float",), z3.If(m > hf, hf, m))


LIB[("numpy", "clip")] = lib_np_clip


def lib_np_random_uniform(eng, st, args, kw, node):
    """np.random.uniform(lo, hi) in [lo, hi) (hi itself only through rounding: [lo, hi] claimed)"""
    lo, hi = [st.to_float(eng.num(st, a, node)).z for a in args[:2]]
    st.ghost["rng_used"] = True
    r = eng.ctx.fresh("uniform", ("float",))
    if eng.ctx.float_mode == "fp":
        st.assume(z3.Implies(z3.fpLEQ(lo, hi), z3.And(z3.fpLEQ(lo, r.z), z3.fpLEQ(r.z, hi))))
    else:
        st.assume(z3.Implies(lo <= hi, z3.And(lo <= r.z, r.z <= hi)))
    eng.ctx.tags.add("AX_numpy_uniform_within_bounds")
    return r


LIB[("numpy.random", "uniform")] = lib_np_random_uniform


def lib_np_random_random(eng, st, args, kw, node):
    """np.random.random() in [0, 1)"""
    if args or kw:
        raise Unsupported("np.random.random with a size")
    st.ghost["rng_used"] = True
    r = eng.ctx.fresh("rnd", ("float",))
    if eng.ctx.float_mode == "fp":
        st.assume(z3.And(z3.fpLEQ(z3.FPVal(0.0, z3.Float64()), r.z), z3.fpLT(r.z, z3.FPVal(1.0, z3.Float64()))))
    else:
        st.assume(z3.And(r.z >= 0, r.z < 1))
    eng.ctx.tags.add("AX_numpy_uniform_within_bounds")
    return r


LIB[("numpy.random", "random")] = lib_np_random_random


def lib_np_random_choice(eng, st, args, kw, node):
    """np.random.choice(range(0, n)): an element of the range"""
    a = args[0]
    st.ghost["rng_used"] = True
    if is_static(a, "range") and len(args) == 1 and not kw:
        lo, hi = a.items
        r = eng.ctx.fresh("choice", ("int",))
        eng.safety(st, hi > lo, "choice-of-empty", node, "np.random.choice of an empty range raises")
        st.assume(z3.And(r.z >= lo, r.z < hi))
        eng.ctx.tags.add("AX_numpy_choice_is_a_member")
        return r
    raise Unsupported("np.random.choice form")


LIB[("numpy.random", "choice")] = lib_np_random_choice
