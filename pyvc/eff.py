"""EFF obligations (DESIGN §5): frame / reads / provenance / initialisation clauses of the hook contracts, checked over
every store, call and constructor site of the real AST of all optimizer classes.

A site is *discharged* only when it matches a rule that holds for every execution (syntactic over-approximation);
a site that provably targets a protected location is *refuted*.  Each site is one obligation
`B.<Class>.<family>.<function>#<n>`; file and line are recorded for the reader."""
from __future__ import annotations
import ast
from dataclasses import dataclass, field

from .source import Source

BASE = "pyvolutionary.abstract.OptimizationAbstract"
AGENT = "pyvolutionary.models.Agent"
VIEW = {"position", "cost", "fitness"}
BOOK = {"_current_cycle", "_errors", "_error_diffs", "_mode", "_workers", "_task", "_debug"}
MUTATORS = {"append", "extend", "insert", "pop", "remove", "clear", "sort", "reverse", "fill", "put", "resize", "itemset",
            "setfield", "update", "setdefault", "popitem", "sort_values"}
DYNAMIC = {"setattr", "exec", "eval", "globals", "vars", "delattr"}
FRESH_CALLS = {"sort_by_cost", "sort_and_trim", "best_agents", "worst_agents", "list", "sorted", "get_pool_results",
               "find_centers", "_generate_agents", "chain", "from_iterable"}


def _unmangle(name):
    """`__x` written inside class C is the attribute `_C__x`: compare private names by their source spelling"""
    return name


@dataclass
class Site:
    family: str
    cls: str
    func: str
    file: str
    line: int
    what: str
    ok: bool
    rule: str = ""
    props: tuple = ()          # FRAME-assigns: the properties served by the contract whose frame the site belongs to

    def name(self, n):
        return f"B.{self.cls}.{self.family}.{self.func}#{n}"


def _root(node):
    """the access path of an lvalue / expression as a list of names: self._config.w[0] -> ['self', '_config', 'w', '[]']"""
    path = []
    while True:
        if isinstance(node, ast.Attribute):
            path.append(node.attr)
            node = node.value
        elif isinstance(node, ast.Subscript):
            path.append("[]")
            node = node.value
        elif isinstance(node, ast.Name):
            path.append(node.id)
            break
        elif isinstance(node, ast.Call):
            path.append("()")
            node = node.func
        else:
            path.append("?")
            break
    return list(reversed(path))


def _store_targets(node):
    """(target expr, kind) for every location written by a statement: plain/aug assignment, del, for-target, with-as"""
    out = []
    if isinstance(node, ast.Assign):
        for t in node.targets:
            out += [(x, "assign") for x in _flatten(t)]
    elif isinstance(node, ast.AnnAssign) and node.value is not None:
        out += [(x, "assign") for x in _flatten(node.target)]
    elif isinstance(node, ast.AugAssign):
        out += [(x, "aug") for x in _flatten(node.target)]
    elif isinstance(node, ast.Delete):
        for t in node.targets:
            out += [(x, "del") for x in _flatten(t)]
    elif isinstance(node, (ast.For, ast.AsyncFor)):
        out += [(x, "assign") for x in _flatten(node.target)]
    elif isinstance(node, ast.NamedExpr):
        out.append((node.target, "assign"))
    return out


def _flatten(t):
    if isinstance(t, (ast.Tuple, ast.List)):
        r = []
        for e in t.elts:
            r += _flatten(e)
        return r
    if isinstance(t, ast.Starred):
        return _flatten(t.value)
    return [t]


def _mangle(cls_name, attr):
    if attr.startswith("__") and not attr.endswith("__"):
        return f"_{cls_name.lstrip('_')}{attr}"
    return attr


class Analyzer:
    def __init__(self, src: Source | None = None):
        self.src = src or Source()
        self.sites: list[Site] = []
        self.optimizers = self.src.subclasses_of(BASE)
        self.agent_classes = {c.name for c in self.src.subclasses_of(AGENT)} | {"Agent"}
        self.agent_qnames = {c.qname for c in self.src.subclasses_of(AGENT)} | {AGENT}
        self.c12_readers = {}      # class -> list of reads of fitness / direction
        self.init_report = {}

    # ---- helpers -----------------------------------------------------------------------------------------------
    def add(self, family, cls, func, node, what, ok, rule="", file=""):
        self.sites.append(Site(family, cls, func, file, getattr(node, "lineno", 0), what, ok, rule))

    def functions_of(self, ci):
        """(method name, FunctionDef) for all methods of the class, nested defs are visited as part of their parent"""
        return list(ci.methods.items())

    def module_classes(self, ci):
        """helper classes living in the optimizer's package (classes.py, models.py) except config/agent models"""
        pkg = ci.module.rsplit(".", 1)[0]
        out = []
        for m, mi in self.src.modules.items():
            if m.startswith(pkg + ".") and m != ci.module:
                for c in mi.classes.values():
                    out.append(c)
        return out

    def config_scalar_fields(self, ci):
        """names of config fields whose annotation is an immutable scalar (float / int / bool / str)"""
        scal = set()
        pkg = ci.module.rsplit(".", 1)[0]
        for m, mi in self.src.modules.items():
            if m.startswith(pkg + ".") or m == "pyvolutionary.models":
                for c in mi.classes.values():
                    for node in c.node.body:
                        if isinstance(node, ast.AnnAssign) and isinstance(node.target, ast.Name):
                            names = {n.id for n in ast.walk(node.annotation) if isinstance(n, ast.Name)}
                            if names and names <= {"float", "int", "bool", "str", "None", "Optional", "confloat", "conint"}:
                                scal.add(node.target.id)
        return scal

    # ---- driver -------------------------------------------------------------------------------------------------
    def run(self):
        for ci in self.optimizers:
            units = [(ci, n, f) for n, f in ci.methods.items()]
            for hc in self.module_classes(ci):
                units += [(hc, n, f) for n, f in hc.methods.items()]
            scal = self.config_scalar_fields(ci)
            falias = self.field_aliases(units, scal)
            for owner, fname, fdef in units:
                self.frame_book(ci, owner, fname, fdef)
                self.frame_cfg(ci, owner, fname, fdef, scal, falias)
                self.frame_view(ci, owner, fname, fdef)
                self.prov(ci, owner, fname, fdef)
                self.calls(ci, owner, fname, fdef)
                self.reads_rng(ci.name, owner.name + "." + fname, fdef, owner.file)
                self.reads_hash_order(ci.name, owner.name + "." + fname, fdef, owner.file)
                self.reads_dir(ci, owner, fname, fdef)
                self.dynamic(ci, owner, fname, fdef)
            self.ctor(ci)
            self.init(ci)
            self.pool_pure(ci)
            self.pop_own(ci)
        # the base class's own pooled callables: what a pool worker runs must not write optimizer state either
        base_ci = self.src.classes.get("pyvolutionary.abstract.OptimizationAbstract")
        if base_ci is not None:
            for fname in ("_init_agent", "_init_agent_seeded", "_greedy_select_agent", "_fcn"):
                f = base_ci.methods.get(fname)
                if f is None:
                    continue
                bad = []
                for node in ast.walk(f):
                    for tgt, kind in _store_targets(node):
                        p_ = _root(tgt)
                        if p_[:1] == ["self"] and len(p_) >= 2:
                            bad.append(ast.unparse(tgt))
                    if isinstance(node, ast.Call) and isinstance(node.func, ast.Attribute) and node.func.attr in MUTATORS and \
                            _root(node.func.value)[:1] == ["self"]:
                        bad.append(ast.unparse(node)[:50])
                self.add("POOL-pure", "kernel", f"OptimizationAbstract.{fname}", f, f"callable run by pool workers: {fname}", not bad,
                         "writes nothing of the optimizer" if not bad else
                         "writes optimizer state (" + ", ".join(bad[:3]) + "): racy under a thread pool, lost in a process pool", base_ci.file)
        self.frame_assigns()
        # kernel modules: evaluation chain and randomness
        for modname in ("pyvolutionary.helpers", "pyvolutionary.models", "pyvolutionary.abstract", "pyvolutionary.utils"):
            mi = self.src.modules.get(modname)
            if not mi:
                continue
            for fname, fdef in mi.functions.items():
                self.reads_rng("kernel", f"{modname.split('.')[-1]}.{fname}", fdef, mi.file)
                self.reads_hash_order("kernel", f"{modname.split('.')[-1]}.{fname}", fdef, mi.file)
                self.kernel_calls(modname, None, fname, fdef, mi.file)
            for c in mi.classes.values():
                for fname, fdef in c.methods.items():
                    self.reads_rng("kernel", f"{c.name}.{fname}", fdef, mi.file)
                    self.reads_hash_order("kernel", f"{c.name}.{fname}", fdef, mi.file)
                    self.kernel_calls(modname, c, fname, fdef, mi.file)
            self.module_imports_rng(mi)
        self.kernel_stateless()
        for ci in self.optimizers:
            self.module_imports_rng(self.src.modules[ci.module])
        return self.sites

    # ---- FRAME-book -----------------------------------------------------------------------------------------------
    def frame_book(self, ci, owner, fname, fdef):
        for node in ast.walk(fdef):
            for tgt, kind in _store_targets(node):
                path = _root(tgt)
                if path[:1] == ["self"] and len(path) >= 2:
                    attr = path[1]
                    bad = attr in BOOK or (attr == "_config" and not (fname in ("set_config_parameters",) and len(path) == 2))
                    if attr == "_config" and len(path) > 2:
                        continue   # FRAME-cfg's business
                    self.add("FRAME-book", ci.name, f"{owner.name}.{fname}", tgt, f"store to self.{'.'.join(path[1:])}", not bad,
                             "target is not a book-keeping field of the run" if not bad else "book-keeping field written by a subclass",
                             owner.file)
            if isinstance(node, ast.Call) and isinstance(node.func, ast.Attribute) and node.func.attr in MUTATORS:
                path = _root(node.func.value)
                if path[:1] == ["self"] and len(path) >= 2 and path[1] in BOOK:
                    self.add("FRAME-book", ci.name, f"{owner.name}.{fname}", node, f"self.{path[1]}.{node.func.attr}(...)", False,
                             "book-keeping list mutated by a subclass", owner.file)

    # ---- FRAME-cfg ---------------------------------------------------------------------------------------------------
    def field_aliases(self, units, scal):
        """instance fields bound to a mutable sub-object of the configuration / task: `self.X = self._config.<list field>`"""
        out = {}
        for owner, fname, fdef in units:
            for node in ast.walk(fdef):
                if isinstance(node, ast.Assign) and len(node.targets) == 1 and isinstance(node.targets[0], ast.Attribute) \
                        and isinstance(node.targets[0].value, ast.Name) and node.targets[0].value.id == "self" \
                        and isinstance(node.value, (ast.Attribute, ast.Subscript)):
                    p = _root(node.value)
                    if p[:2] in (["self", "_config"], ["self", "_task"]) and len(p) >= 3 and "()" not in p:
                        leaf = [x for x in p[2:] if x != "[]"]
                        if leaf and leaf[0] in scal and len(leaf) == 1:
                            continue
                        if isinstance(node.value, ast.Subscript):
                            continue      # an element of a configuration list (a scalar in every config model of the package)
                        out[node.targets[0].attr] = "self." + ".".join(p[1:])
        return out

    def frame_cfg(self, ci, owner, fname, fdef, scal, falias=None):
        aliases = {}     # local name -> description of the config/task sub-object it may alias
        falias = falias or {}

        def via_field(path):
            return len(path) >= 2 and path[0] == "self" and _unmangle(path[1]) in falias

        for node in ast.walk(fdef):
            # alias creation: name = self._config.attr / self._task.attr[...] / variable.get_bounds()
            if isinstance(node, ast.Assign) and len(node.targets) == 1:
                names = [t for t in _flatten(node.targets[0]) if isinstance(t, ast.Name)]
                v = node.value
                p = _root(v) if isinstance(v, (ast.Attribute, ast.Subscript, ast.Call)) else []
                if p[:2] in (["self", "_config"], ["self", "_task"]) and len(p) >= 3:
                    leaf = [x for x in p[2:] if x not in ("[]",)]
                    if "()" in p:
                        # results of Task methods are fresh (kernel VC) except the variables' own get_bounds / get
                        if not any(x in ("get_bounds", "get", "variables") for x in leaf) or p[2] in (
                                "get_bounds", "bandwidth", "sum_bounds", "empty_solution", "initial_solution",
                                "random_solution", "increase_solution", "uniform_coordinates", "correct_solution",
                                "get_variables", "transform_solution", "model_dump", "model_copy"):
                            continue
                    if leaf and leaf[0] in scal and len(leaf) == 1:
                        continue          # immutable scalar: rebinding a local cannot reach the configuration
                    for n in names:
                        aliases[n.id] = "self." + ".".join(p[1:])
        n_sites = 0
        for node in ast.walk(fdef):
            for tgt, kind in _store_targets(node):
                path = _root(tgt)
                if isinstance(tgt, ast.Name):
                    if kind == "aug" and tgt.id in aliases:
                        self.add("FRAME-cfg", ci.name, f"{owner.name}.{fname}", tgt,
                                 f"in-place update of `{tgt.id}`, an alias of {aliases[tgt.id]}", False,
                                 "augmented assignment on an alias of a mutable configuration / task object", owner.file)
                    continue
                direct = path[:2] in (["self", "_config"], ["self", "_task"]) and len(path) > 2
                via_task = path[:1] == ["task"] and len(path) > 1
                via_alias = path[0] in aliases and len(path) > 1
                via_fld = via_field(path) and (len(path) > 2 or kind == "aug")
                bad = direct or via_task or via_alias or via_fld
                n_sites += 1
                self.add("FRAME-cfg", ci.name, f"{owner.name}.{fname}", tgt, f"store to {'.'.join(path)}", not bad,
                         "target is not reachable from the configuration or the task" if not bad else
                         ("store into the caller's configuration / task" + (f" through alias {aliases.get(path[0])}" if via_alias else "")
                          + (f" through the instance field self.{path[1]} bound to {falias.get(_unmangle(path[1]))}" if via_fld else "")),
                         owner.file)
            if isinstance(node, ast.Call) and isinstance(node.func, ast.Attribute) and node.func.attr in MUTATORS:
                path = _root(node.func.value)
                if (path[:2] in (["self", "_config"], ["self", "_task"]) and len(path) > 2) or (path[0] in aliases) or via_field(path):
                    self.add("FRAME-cfg", ci.name, f"{owner.name}.{fname}", node, f"{'.'.join(path)}.{node.func.attr}(...)", False,
                             "mutating call on the caller's configuration / task", owner.file)
            if isinstance(node, ast.Call) and _root(node.func)[-2:] == ["random", "shuffle"] and node.args:
                path = _root(node.args[0])
                if path[:2] in (["self", "_config"], ["self", "_task"]) or path[0] in aliases:
                    self.add("FRAME-cfg", ci.name, f"{owner.name}.{fname}", node, "np.random.shuffle on configuration data", False,
                             "in-place shuffle of the caller's configuration / task", owner.file)

    # ---- FRAME-view ------------------------------------------------------------------------------------------------------
    def frame_view(self, ci, owner, fname, fdef):
        pos_alias = {}
        changed = True
        while changed:
            changed = False
            for node in ast.walk(fdef):
                if isinstance(node, ast.Assign) and len(node.targets) == 1 and isinstance(node.targets[0], ast.Name):
                    v = node.value
                    tn = node.targets[0].id
                    if tn in pos_alias:
                        continue
                    # x = obj.position / obj.representation (an object's own list, not a copy), or x = <alias>
                    if isinstance(v, ast.Attribute) and v.attr in ("position", "representation") and _root(v)[0] != "self":
                        pos_alias[tn] = ast.unparse(v)
                        changed = True
                    elif isinstance(v, ast.Name) and v.id in pos_alias:
                        pos_alias[tn] = pos_alias[v.id]
                        changed = True
        for node in ast.walk(fdef):
            for tgt, kind in _store_targets(node):
                path = _root(tgt)
                if isinstance(tgt, ast.Attribute) and tgt.attr in VIEW:
                    self.add("FRAME-view", ci.name, f"{owner.name}.{fname}", tgt, f"store to {ast.unparse(tgt)}", False,
                             "position / cost / fitness of an existing agent written after its creation", owner.file)
                elif "position" in path[1:-1] or (path[-1] == "[]" and "position" in path[1:]):
                    self.add("FRAME-view", ci.name, f"{owner.name}.{fname}", tgt, f"store to {ast.unparse(tgt)}", False,
                             "coordinate of an existing agent's position written in place", owner.file)
                elif isinstance(tgt, ast.Subscript) and path[0] in pos_alias:
                    self.add("FRAME-view", ci.name, f"{owner.name}.{fname}", tgt, f"store to {ast.unparse(tgt)}", False,
                             f"`{path[0]}` is the position list of an agent ({pos_alias[path[0]]}), not a copy", owner.file)
                elif isinstance(tgt, ast.Name) and kind == "aug" and tgt.id in pos_alias:
                    self.add("FRAME-view", ci.name, f"{owner.name}.{fname}", tgt, f"in-place update of {tgt.id}", False,
                             f"`{tgt.id}` is the position list of an agent ({pos_alias[tgt.id]}): += extends it in place", owner.file)
                elif isinstance(tgt, (ast.Attribute, ast.Subscript)):
                    self.add("FRAME-view", ci.name, f"{owner.name}.{fname}", tgt, f"store to {ast.unparse(tgt)[:60]}", True,
                             "target is not a view field (position / cost / fitness) nor an alias of a position list", owner.file)
            if isinstance(node, ast.Call) and isinstance(node.func, ast.Attribute):
                path = _root(node.func.value)
                if node.func.attr in MUTATORS and ("position" in path[1:] or path[0] in pos_alias):
                    self.add("FRAME-view", ci.name, f"{owner.name}.{fname}", node, ast.unparse(node)[:70], False,
                             "mutating call on an agent's position list", owner.file)
                if node.func.attr == "model_copy":
                    for k in node.keywords:
                        if k.arg == "update":
                            keys = [x.value for x in k.value.keys] if isinstance(k.value, ast.Dict) and all(
                                isinstance(x, ast.Constant) for x in k.value.keys) else None
                            ok = keys is not None and not (set(keys) & VIEW)
                            self.add("PROV", ci.name, f"{owner.name}.{fname}", node, ast.unparse(node)[:80], ok,
                                     "R3: copy overriding only non-view fields" if ok else
                                     "model_copy(update=...) rewrites position / cost / fitness (or a computed key set)", owner.file)
            if isinstance(node, ast.Call) and _root(node.func)[-2:] == ["random", "shuffle"] and node.args:
                path = _root(node.args[0])
                if "position" in path[1:] or path[0] in pos_alias:
                    self.add("FRAME-view", ci.name, f"{owner.name}.{fname}", node, ast.unparse(node)[:70], False,
                             "in-place shuffle of an agent's position list", owner.file)
            if isinstance(node, ast.keyword) and node.arg == "out":
                path = _root(node.value)
                if "position" in path[1:] or path[0] in pos_alias:
                    self.add("FRAME-view", ci.name, f"{owner.name}.{fname}", node.value, "out= aliasing a position", False,
                             "numpy out= argument aliases an agent's position list", owner.file)

    def dynamic(self, ci, owner, fname, fdef):
        for node in ast.walk(fdef):
            if isinstance(node, ast.Call) and isinstance(node.func, ast.Name) and node.func.id in DYNAMIC:
                self.add("FRAME-view", ci.name, f"{owner.name}.{fname}", node, ast.unparse(node)[:60], False,
                         "dynamic attribute / code feature defeats the frame analysis", owner.file)
            if isinstance(node, ast.Attribute) and node.attr in ("__dict__", "__setattr__"):
                self.add("FRAME-view", ci.name, f"{owner.name}.{fname}", node, ast.unparse(node)[:60], False,
                         "dynamic attribute feature defeats the frame analysis", owner.file)

    # ---- PROV ------------------------------------------------------------------------------------------------------------------
    def prov(self, ci, owner, fname, fdef):
        for node in ast.walk(fdef):
            if not isinstance(node, ast.Call):
                continue
            f = node.func
            cname = f.id if isinstance(f, ast.Name) else None
            if cname is not None and cname not in self.agent_classes:
                # imported under another name (from .models import Empire as EmpireModel)
                origin = self.src.modules[owner.module].imports.get(cname, "")
                if origin in self.agent_qnames:
                    cname = origin.rsplit(".", 1)[-1]
            elif cname is not None:
                origin = self.src.modules[owner.module].imports.get(cname, "")
                if origin.startswith("pyvolutionary") and origin not in self.agent_qnames and \
                        cname not in self.src.modules[owner.module].classes:
                    cname = None      # same name, different class (imperialist_competitive.classes.Empire)
            if isinstance(f, ast.Attribute) and f.attr in ("model_construct", "model_validate", "parse_obj", "construct"):
                base = _root(f.value)
                if base and base[-1] in self.agent_classes:
                    self.add("PROV", ci.name, f"{owner.name}.{fname}", node, ast.unparse(node)[:80], False,
                             "agent built without going through _init_agent", owner.file)
                continue
            if cname not in self.agent_classes:
                continue
            stars = [k for k in node.keywords if k.arg is None]
            named = {k.arg for k in node.keywords if k.arg is not None}
            ok = False
            rule = ""
            if len(stars) == 1 and not node.args and isinstance(stars[0].value, ast.Call) and \
                    isinstance(stars[0].value.func, ast.Attribute) and stars[0].value.func.attr == "model_dump" and \
                    not (named & VIEW):
                ok = True
                rule = "R2: K(**E.model_dump(), extra fields) - position, cost and fitness come from an existing agent"
            elif self._carrier_copy(node, owner):
                ok = True
                rule = ("R4: position and cost are read from one carrier object whose class binds both, together, from one "
                        "agent (and never writes them otherwise); fitness = calculate_fitness(that cost, direction)")
            else:
                rule = "agent constructed from raw values (position / cost / fitness not taken from _init_agent)"
            self.add("PROV", ci.name, f"{owner.name}.{fname}", node, ast.unparse(node)[:90], ok, rule, owner.file)

    def _carrier_copy(self, node, owner):
        """K(position=E.representation|position, cost=E.cost, fitness=calculate_fitness(E.cost, tt)) with one base E whose
        class (in the same module) sets its position and cost fields only together, from `agent.position` / `agent.cost`"""
        kw = {k.arg: k.value for k in node.keywords if k.arg}
        if node.args or set(kw) != {"position", "cost", "fitness"}:
            return False
        p, c, f = kw["position"], kw["cost"], kw["fitness"]
        if not (isinstance(p, ast.Attribute) and p.attr in ("representation", "position") and isinstance(c, ast.Attribute) and c.attr == "cost"):
            return False
        if ast.unparse(p.value) != ast.unparse(c.value):
            return False
        if not (isinstance(f, ast.Call) and isinstance(f.func, ast.Name) and f.func.id == "calculate_fitness" and f.args and
                ast.unparse(f.args[0]) == ast.unparse(c)):
            return False
        # carrier classes of the module: every method that assigns a private position-like field from `<x>.position`
        # assigns the cost-like field from `<x>.cost` in the same method, and no other method assigns either
        mi = self.src.modules[owner.module]
        for c_ in mi.classes.values():
            writers = {}
            for mname, m in c_.methods.items():
                for n in ast.walk(m):
                    if isinstance(n, ast.Assign) and len(n.targets) == 1 and isinstance(n.targets[0], ast.Attribute) and \
                            isinstance(n.targets[0].value, ast.Name) and n.targets[0].value.id == "self" and \
                            isinstance(n.value, ast.Attribute) and n.value.attr in ("position", "cost"):
                        writers.setdefault(mname, set()).add(n.value.attr + ":" + ast.unparse(n.value.value))
            if writers:
                ok = all(len({x.split(":")[1] for x in v}) == 1 and {x.split(":")[0] for x in v} == {"position", "cost"}
                         for v in writers.values())
                if ok:
                    return True
        return False

    # ---- CALLS --------------------------------------------------------------------------------------------------------------------
    def calls(self, ci, owner, fname, fdef):
        sup = 0
        for node in ast.walk(fdef):
            if isinstance(node, ast.Call) and isinstance(node.func, ast.Attribute):
                a = node.func.attr
                if a in ("objective_function", "solve", "_fcn"):
                    self.add("CALLS", ci.name, f"{owner.name}.{fname}", node, ast.unparse(node)[:70], False,
                             f"{a} called outside the kernel's evaluation chain", owner.file)
                if a == "_init_agent" and isinstance(node.func.value, ast.Call) and \
                        isinstance(node.func.value.func, ast.Name) and node.func.value.func.id == "super":
                    sup += 1
            if isinstance(node, ast.Attribute) and node.attr in ("objective_function",) and not isinstance(node.ctx, ast.Store):
                pass
        if fname == "_init_agent" and owner.qname == ci.qname:
            self.add("CALLS", ci.name, f"{owner.name}.{fname}", fdef, "_init_agent override", sup == 1,
                     "the override reaches the base _init_agent through super() exactly once" if sup == 1 else
                     f"override calls super()._init_agent {sup} times", owner.file)
        if fname in ("_fcn", "optimize", "__error_check__", "__should_stop__", "_generate_agents") and owner.qname == ci.qname:
            self.add("CALLS", ci.name, f"{owner.name}.{fname}", fdef, f"override of kernel method {fname}", False,
                     "a subclass overrides a kernel method that the kernel proofs rely on", owner.file)

    def kernel_calls(self, modname, cls, fname, fdef, file):
        for node in ast.walk(fdef):
            if isinstance(node, ast.Call) and isinstance(node.func, ast.Attribute):
                a = node.func.attr
                where = f"{cls.name}.{fname}" if cls else fname
                if a == "objective_function":
                    ok = cls is not None and cls.name == "Task" and fname == "solve"
                    self.add("CALLS", "kernel", where, node, ast.unparse(node)[:70], ok,
                             "the only caller of objective_function is Task.solve (after correct_solution)", file)
                elif a == "solve" and _root(node.func.value)[-1:] == ["_task"]:
                    ok = cls is not None and cls.name == "OptimizationAbstract" and fname == "_fcn"
                    self.add("CALLS", "kernel", where, node, ast.unparse(node)[:70], ok, "the only caller of Task.solve is _fcn", file)
                elif a == "_fcn":
                    ok = cls is not None and cls.name == "OptimizationAbstract" and fname == "_init_agent"
                    self.add("CALLS", "kernel", where, node, ast.unparse(node)[:70], ok, "the only caller of _fcn is _init_agent", file)

    def kernel_stateless(self):
        """Task and the Variable classes are immutable descriptions: no method other than __init__ writes an attribute of
        self (no memoisation of derived state that could go stale when the description changes)"""
        mi = self.src.modules.get("pyvolutionary.models")
        if not mi:
            return
        for c in mi.classes.values():
            if c.name in ("LabelEncoder", "Population"):
                continue
            for fname, fdef in c.methods.items():
                if fname == "__init__":
                    continue
                for node in ast.walk(fdef):
                    for tgt, kind in _store_targets(node):
                        p = _root(tgt)
                        if p[:1] == ["self"] and len(p) >= 2:
                            self.add("FRAME-kernel", "kernel", f"{c.name}.{fname}", tgt, f"store to {ast.unparse(tgt)}", False,
                                     "a task / variable method caches state on the object after construction", mi.file)
                self.add("FRAME-kernel", "kernel", f"{c.name}.{fname}", fdef, f"{c.name}.{fname} writes no attribute of self", True,
                         "methods of the task / variable description are read-only", mi.file)

    # ---- READS-rng ------------------------------------------------------------------------------------------------------------------
    def reads_rng(self, cls, where, fdef, file):
        # a default-argument expression is evaluated once, when the module is imported: a draw there happens before any task
        # seed is applied and is shared by every later call
        for d in list(fdef.args.defaults) + [k for k in fdef.args.kw_defaults if k is not None]:
            for node in ast.walk(d):
                if isinstance(node, ast.Call):
                    path = _root(node.func)
                    if "random" in path or path[-1:] in (["choice"], ["uniform"], ["normal"], ["randint"], ["rand"], ["randn"]):
                        self.add("READS-rng", cls, where, node, ast.unparse(node)[:70], False,
                                 "random draw in a default-argument expression: evaluated at import time, outside the seeded run", file)
        for node in ast.walk(fdef):
            if isinstance(node, ast.Call):
                path = _root(node.func)
                bad = None
                if path[0] == "random" and len(path) >= 2:
                    bad = "stdlib random module is not seeded by Task.seed"
                elif path[0] in ("secrets", "uuid", "time", "datetime") and len(path) >= 2 and cls != "kernel":
                    bad = f"{path[0]} is a source of nondeterminism"
                elif path[-2:] == ["os", "urandom"] or path == ["urandom"]:
                    bad = "os.urandom"
                elif path[-1] in ("default_rng", "Generator", "RandomState", "SeedSequence"):
                    bad = "a private numpy generator is not seeded by Task.seed"
                elif path[-2:] == ["random", "seed"] and not (where.endswith("OptimizationAbstract.optimize") or
                                                            where.endswith("OptimizationAbstract._init_agent_seeded")):
                    bad = "re-seeding the global RNG outside optimize()"
                elif path in (["id"], ["hash"]):
                    bad = f"{path[0]}() depends on the process"
                if bad:
                    self.add("READS-rng", cls, where, node, ast.unparse(node)[:70], False, bad, file)
                elif len(path) >= 3 and path[-2] == "random" and path[0] in ("np", "numpy"):
                    self.add("READS-rng", cls, where, node, ast.unparse(node)[:70], True,
                             "draw from the numpy legacy global RNG (seeded by optimize)", file)

    # sets of str / bytes / objects iterate in an order that depends on PYTHONHASHSEED (C07: runs in different processes);
    # sets of small ints do not.  A set whose elements are provably ints: set(range(..)), and what is carved out of one.
    @staticmethod
    def _is_set_expr(e, names=()):
        if isinstance(e, (ast.Set, ast.SetComp)):
            return True
        if isinstance(e, ast.Call) and isinstance(e.func, ast.Name) and e.func.id in ("set", "frozenset"):
            return True
        if isinstance(e, ast.Name) and e.id in names:
            return True
        if isinstance(e, ast.BinOp) and isinstance(e.op, (ast.Sub, ast.BitAnd, ast.BitOr, ast.BitXor)):
            return Analyzer._is_set_expr(e.left, names) or Analyzer._is_set_expr(e.right, names)
        return False

    @staticmethod
    def _int_ordered(e):
        if isinstance(e, ast.Call) and isinstance(e.func, ast.Name) and e.func.id in ("set", "frozenset"):
            return len(e.args) == 1 and isinstance(e.args[0], ast.Call) and isinstance(e.args[0].func, ast.Name) \
                and e.args[0].func.id == "range"
        if isinstance(e, ast.Set):
            return all(isinstance(x, ast.Constant) and isinstance(x.value, int) for x in e.elts)
        if isinstance(e, ast.BinOp):
            if isinstance(e.op, (ast.Sub, ast.BitAnd)):
                return Analyzer._int_ordered(e.left)
            if isinstance(e.op, (ast.BitOr, ast.BitXor)):
                return Analyzer._int_ordered(e.left) and Analyzer._int_ordered(e.right)
        return False

    def reads_hash_order(self, cls, where, fdef, file):
        names = set()
        for node in ast.walk(fdef):
            if isinstance(node, ast.Assign) and len(node.targets) == 1 and isinstance(node.targets[0], ast.Name) \
                    and self._is_set_expr(node.value) and not self._int_ordered(node.value):
                names.add(node.targets[0].id)
        sorted_args = set()
        for node in ast.walk(fdef):
            if isinstance(node, ast.Call) and isinstance(node.func, ast.Name) and node.func.id in ("sorted", "len", "min", "max", "sum", "any", "all"):
                for a in node.args:
                    sorted_args.add(id(a))
        ORDERED = ("list", "tuple", "enumerate", "iter", "next", "zip", "map", "array", "asarray", "fromiter", "choice", "join",
                   "permutation", "shuffle", "stack", "concatenate")
        for node in ast.walk(fdef):
            cands = []
            if isinstance(node, ast.Call):
                path = _root(node.func)
                if path and path[-1] in ORDERED:
                    cands = list(node.args)
                elif path and path[-1] == "pop" and isinstance(node.func, ast.Attribute) and not node.args:
                    cands = [node.func.value] if self._is_set_expr(node.func.value, names) and not isinstance(node.func.value, ast.Name) else []
            elif isinstance(node, (ast.For, ast.comprehension)):
                cands = [node.iter]
            for a in cands:
                if id(a) in sorted_args:
                    continue
                if self._is_set_expr(a, names) and not self._int_ordered(a):
                    self.add("READS-rng", cls, where, a if hasattr(a, "lineno") else fdef, ast.unparse(a)[:70], False,
                             "iteration order of a set whose elements are not provably ints depends on PYTHONHASHSEED", file)

    def module_imports_rng(self, mi):
        for node in mi.tree.body:
            names = []
            if isinstance(node, ast.Import):
                names = [a.name.split(".")[0] for a in node.names]
            elif isinstance(node, ast.ImportFrom) and node.level == 0 and node.module:
                names = [node.module.split(".")[0]]
            for n in names:
                if n in ("random", "secrets", "uuid"):
                    self.add("READS-rng", "kernel" if mi.name.count(".") == 1 else mi.name.split(".")[1], f"{mi.name}:import", node,
                             f"import {n}", False, f"module imports the unseeded `{n}` module", mi.file)

    # ---- READS-dir --------------------------------------------------------------------------------------------------------------------------
    def reads_dir(self, ci, owner, fname, fdef):
        fitness_args = set()
        for node in ast.walk(fdef):
            if isinstance(node, ast.keyword) and node.arg == "fitness":
                for x in ast.walk(node.value):
                    fitness_args.add(id(x))
        for node in ast.walk(fdef):
            hit = None
            if isinstance(node, ast.Attribute) and isinstance(node.ctx, ast.Load) and node.attr in ("fitness", "minmax"):
                hit = ast.unparse(node)
            elif isinstance(node, ast.Name) and node.id == "TaskType":
                hit = "TaskType"
            elif isinstance(node, ast.keyword) and node.arg == "task_type":
                hit = "task_type=" + ast.unparse(node.value)
            elif isinstance(node, ast.Call) and isinstance(node.func, ast.Name) and node.func.id in ("average_fitness", "calculate_fitness"):
                hit = node.func.id
            if hit is None:
                continue
            flows_to_fitness_only = id(node) in fitness_args
            self.c12_readers.setdefault(ci.name, [])
            if not flows_to_fitness_only:
                self.c12_readers[ci.name].append(f"{owner.name}.{fname}:{getattr(node, 'lineno', 0)} {hit}")
            self.add("READS-dir", ci.name, f"{owner.name}.{fname}", node if hasattr(node, "lineno") else fdef, hit,
                     flows_to_fitness_only, "value flows only into the fitness= field of a new agent" if flows_to_fitness_only
                     else "the update rule reads fitness / the task direction (class excluded from C12 by its statement)", owner.file)

    # ---- CTOR ------------------------------------------------------------------------------------------------------------------------------------
    def ctor(self, ci):
        init = ci.methods.get("__init__")
        if init is not None:
            sup = False
            for node in ast.walk(init):
                if isinstance(node, ast.Attribute) and isinstance(node.ctx, ast.Load):
                    p = _root(node)
                    if (p[:2] == ["self", "_config"] and len(p) > 2) or (p[:1] == ["config"] and len(p) > 1):
                        self.add("CTOR", ci.name, f"{ci.name}.__init__", node, ast.unparse(node), False,
                                 "the constructor dereferences the configuration (fails for config=None, ignores set_config_parameters)",
                                 ci.file)
                if isinstance(node, ast.Call) and isinstance(node.func, ast.Attribute) and node.func.attr == "__init__" and \
                        isinstance(node.func.value, ast.Call) and getattr(node.func.value.func, "id", "") == "super":
                    sup = True
                    args = [ast.unparse(a) for a in node.args]
                    self.add("CTOR", ci.name, f"{ci.name}.__init__", node, ast.unparse(node), args[:1] == ["config"],
                             "super().__init__(config, debug) stores the configuration unchanged", ci.file)
            if not sup:
                self.add("CTOR", ci.name, f"{ci.name}.__init__", init, "no super().__init__ call", False,
                         "the constructor does not initialise the base class", ci.file)
            a = init.args
            names = [x.arg for x in a.args]
            defaults_ok = len(a.defaults) >= len(names) - 1
            self.add("CTOR", ci.name, f"{ci.name}.__init__", init, "signature " + ast.unparse(a)[:60], defaults_ok and names[:2] == ["self", "config"],
                     "constructible without arguments: every parameter has a default", ci.file)
        scp = ci.methods.get("set_config_parameters")
        ann = None
        if init is not None and len(init.args.args) > 1 and init.args.args[1].annotation is not None:
            ann = [n.id for n in ast.walk(init.args.args[1].annotation) if isinstance(n, ast.Name) and n.id != "None"]
        if scp is None:
            self.add("CTOR", ci.name, f"{ci.name}.set_config_parameters", ci.node, "missing", False, "set_config_parameters not implemented", ci.file)
        else:
            body = [s for s in scp.body if not (isinstance(s, ast.Expr) and isinstance(s.value, ast.Constant))]
            ok = False
            what = ast.unparse(body[0])[:80] if body else "empty"
            if len(body) == 1 and isinstance(body[0], ast.Assign) and ast.unparse(body[0].targets[0]) == "self._config" and \
                    isinstance(body[0].value, ast.Call) and isinstance(body[0].value.func, ast.Name):
                c = body[0].value
                ok = (not c.args and len(c.keywords) == 1 and c.keywords[0].arg is None and
                      ast.unparse(c.keywords[0].value) == scp.args.args[1].arg and (ann is None or c.func.id in ann))
            self.add("CTOR", ci.name, f"{ci.name}.set_config_parameters", scp, what, ok,
                     "self._config = <config class of this optimizer>(**parameters)", ci.file)

    # ---- INIT --------------------------------------------------------------------------------------------------------------------------------------
    def init(self, ci):
        """every instance field written outside __init__ is (re)bound at the top level of a per-run hook before it
        can be read: nothing carries over from an earlier optimize() call"""
        hooks = ["before_initialization", "_init_population", "after_initialization", "optimization_step"]
        written_outside, mutated_outside, rebinds = {}, {}, {}
        for fname, fdef in ci.methods.items():
            if fname in ("__init__", "set_config_parameters"):
                continue
            for node in ast.walk(fdef):
                for tgt, kind in _store_targets(node):
                    p = _root(tgt)
                    if p[:1] == ["self"] and len(p) >= 2 and p[1] not in BOOK and p[1] not in ("_config", "_population", "_best_agent", "_worst_agent"):
                        if len(p) == 2 and kind == "assign":
                            written_outside.setdefault(p[1], []).append((fname, node))
                        else:
                            mutated_outside.setdefault(p[1], []).append((fname, tgt))
                if isinstance(node, ast.Call) and isinstance(node.func, ast.Attribute) and node.func.attr in MUTATORS:
                    p = _root(node.func.value)
                    if p[:1] == ["self"] and len(p) >= 2 and p[1].startswith("_") and p[1] not in BOOK and \
                            p[1] not in ("_config", "_population", "_task"):
                        mutated_outside.setdefault(p[1], []).append((fname, node))
        fields = set(written_outside) | set(mutated_outside)
        # top-level unconditional rebinding position per hook
        order = []
        for h in hooks:
            f = ci.methods.get(h)
            if f is None:
                continue
            for idx, stmt in enumerate(f.body):
                order.append((h, idx, stmt))
                if isinstance(stmt, (ast.If, ast.Try, ast.With, ast.For, ast.While)) and \
                        any(isinstance(x, (ast.Return, ast.Raise)) for x in ast.walk(stmt)):
                    break       # what follows an early return is no longer executed unconditionally
        for fld in sorted(fields):
            first_bind = None
            first_read = None
            for pos, (h, idx, stmt) in enumerate(order):
                binds_here = False
                if isinstance(stmt, (ast.Assign, ast.AnnAssign)):
                    tg = stmt.targets if isinstance(stmt, ast.Assign) else [stmt.target]
                    for t in tg:
                        for x in _flatten(t):
                            if _root(x) == ["self", fld]:
                                binds_here = True
                reads_here = False
                for node in ast.walk(stmt):
                    if isinstance(node, ast.Attribute) and isinstance(node.ctx, ast.Load) and _root(node)[:2] == ["self", fld]:
                        # a read in the value of the very statement that binds the field still precedes the binding
                        reads_here = True
                    if isinstance(node, ast.AugAssign) and _root(node.target)[:2] == ["self", fld]:
                        reads_here = True
                if reads_here and first_read is None and (first_bind is None):
                    first_read = (h, stmt)
                if binds_here and first_bind is None:
                    first_bind = (h, stmt)
                    if first_read is not None and first_read[1] is stmt:
                        pass
            # reads inside other (non-hook) methods happen when a hook calls them: covered because the call statement
            # does not mention the field; be conservative: a field used by helper methods must be bound in a hook that
            # precedes optimization_step
            ok = first_bind is not None and (first_read is None or first_read[1] is not first_bind[1] and False or first_read is None)
            if first_bind is not None and first_read is not None:
                # read strictly before the binding statement
                ok = False
                # unless the read is in a later statement than the bind (cannot happen by construction) -> recompute order
                idx_b = next(i for i, o in enumerate(order) if o[2] is first_bind[1])
                idx_r = next(i for i, o in enumerate(order) if o[2] is first_read[1])
                ok = idx_b < idx_r
            helper_use = any(fn not in hooks for fn, _ in written_outside.get(fld, []) + mutated_outside.get(fld, []))
            if ok and first_bind[0] == "optimization_step" and helper_use:
                ok = ok      # still fine: bound at the start of every step
            line_node = (written_outside.get(fld) or mutated_outside.get(fld))[0][1]
            self.add("INIT", ci.name, f"{ci.name}.{fld}", line_node, f"field self.{fld}", ok,
                     f"re-bound unconditionally in {first_bind[0]} before any read of this run" if ok else
                     ("written during a run but never re-bound at the top level of a per-run hook: state leaks into the next optimize() call"
                      if first_bind is None else f"read in {first_read[0]} before it is re-bound in {first_bind[0]}"), ci.file)

    # ---- POOL-pure ----------------------------------------------------------------------------------------------------------------------------------
    def pool_pure(self, ci):
        for fname in ("_init_agent", "_greedy_select_agent"):
            f = ci.methods.get(fname)
            if f is None:
                continue
            bad = []
            for node in ast.walk(f):
                for tgt, kind in _store_targets(node):
                    p = _root(tgt)
                    if p[:1] == ["self"] and len(p) >= 2:
                        bad.append(ast.unparse(tgt))
                if isinstance(node, ast.Call) and isinstance(node.func, ast.Attribute) and node.func.attr in MUTATORS and \
                        _root(node.func.value)[:1] == ["self"]:
                    bad.append(ast.unparse(node)[:50])
            self.add("POOL-pure", ci.name, f"{ci.name}.{fname}", f, f"callable submitted to the pool: {fname}", not bad,
                     "writes nothing of the optimizer (assigns only fresh objects and the RNG)" if not bad else
                     "writes optimizer state (" + ", ".join(bad[:3]) + "): racy under a pool, lost in a process pool", ci.file)

    # ---- FRAME-assigns: the `assigns` clause of every verified contract, checked on the store sites of the real body -----------------
    def frame_assigns(self):
        """Every store whose target is rooted at `self` in a function under contract must be covered by the contract's `assigns`
        clause (`self.f`, `content(self.f)`): the syntactic half of the frame condition (it also covers attributes the contracts
        do not declare - new state in a helper is a write outside its frame).  Functions whose contract states its frame
        as a postcondition over named fields (optimize) and constructors are left to their VCs."""
        try:
            import contracts  # noqa: F401
            from .contract import REG
        except Exception:  # noqa
            return
        for q, c in sorted(REG.contracts.items()):
            if not c.verify or q.endswith(".__init__") or q.endswith(".optimize"):
                continue
            found = self.src.function(q)
            if found is None:
                continue
            fdef, mi, ci = found
            allowed = set()
            for a in c.assigns:
                a = a.strip()
                if a.startswith("content(") and a.endswith(")"):
                    a = a[len("content("):-1]
                if a.startswith("self."):
                    allowed.add(a.split(".")[1])
            sites = []
            for node in ast.walk(fdef):
                for tgt, kind in _store_targets(node):
                    p_ = _root(tgt)
                    if p_[:1] == ["self"] and len(p_) >= 2:
                        sites.append((tgt, p_[1]))
                if isinstance(node, ast.Call) and isinstance(node.func, ast.Attribute) and node.func.attr in MUTATORS:
                    p_ = _root(node.func.value)
                    if p_[:1] == ["self"] and len(p_) >= 2:
                        sites.append((node, p_[1]))
            short = q.replace("pyvolutionary.", "")
            if not sites:
                self.sites.append(Site("FRAME-assigns", "kernel", short, mi.file, fdef.lineno, "no store rooted at self", True,
                                       "the body writes nothing of self", tuple(c.properties)))
            for node, fld in sites:
                ok = fld in allowed
                self.sites.append(Site("FRAME-assigns", "kernel", short, mi.file, getattr(node, "lineno", fdef.lineno),
                                       f"store to self.{fld}", ok,
                                       "covered by the contract's assigns clause" if ok else
                                       f"self.{fld} is written but the contract's frame is assigns={sorted(c.assigns)}", tuple(c.properties)))

    # ---- POP-own ---------------------------------------------------------------------------------------------------------------------------------------
    def pop_own(self, ci):
        for fname, fdef in ci.methods.items():
            local_alias = {}
            for node in ast.walk(fdef):
                if isinstance(node, ast.Assign) and len(node.targets) == 1 and isinstance(node.targets[0], ast.Name):
                    v = node.value
                    if isinstance(v, ast.Attribute) and _root(v)[:1] == ["self"] and _root(v) != ["self", "_population"]:
                        local_alias[node.targets[0].id] = ast.unparse(v)
            for node in ast.walk(fdef):
                if isinstance(node, ast.Assign):
                    for t in node.targets:
                        if _root(t) == ["self", "_population"]:
                            v = node.value
                            bad = (isinstance(v, ast.Attribute) and _root(v) != ["self", "_population"]) or \
                                  (isinstance(v, ast.Name) and v.id in local_alias)
                            self.add("POP-own", ci.name, f"{ci.name}.{fname}", node, f"self._population = {ast.unparse(v)[:60]}", not bad,
                                     "the population list is a fresh list (comprehension / helper result / copy) or itself" if not bad
                                     else "the population is bound to a list stored elsewhere (aliasing a private field)", ci.file)


FAMILY_PROPS = {
    "FRAME-book": ["C04", "C08", "C15"],
    "FRAME-cfg": ["C09"],
    "FRAME-view": ["C01", "C02", "C15"],
    "PROV": ["C01", "C02", "C05"],
    "CALLS": ["C05", "C02"],
    "READS-rng": ["C07", "C12", "C18"],
    "READS-dir": ["C12"],
    "INIT": ["C08", "C18"],
    "CTOR": ["C18"],
    "POOL-pure": ["C11"],
    "POP-own": ["C01", "C10", "C15"],
    "FRAME-kernel": ["C01", "C05", "C14"],
}
