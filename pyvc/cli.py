"""./check <property> [--tier quick|thorough]   |   ./check --replay <file>

Exit codes: 0 property held on everything generated (known findings printed); 1 violation (VIOLATION line);
2 undecided with no bounded fall-back; 3 machinery failure (vacuity guard, canary, audit, crash)."""
from __future__ import annotations
import argparse, json, os, sys, time, traceback

VERIF = os.path.dirname(os.path.dirname(os.path.abspath(__file__)))
REPO = os.environ.get("PYVC_REPO", "/repo")
sys.path.insert(0, REPO)
sys.path.insert(0, VERIF)


def main(argv=None):
    ap = argparse.ArgumentParser()
    ap.add_argument("prop", nargs="?")
    ap.add_argument("--tier", default=os.environ.get("VERIF_TIER", "quick"))
    ap.add_argument("--replay")
    ap.add_argument("--no-bnd", action="store_true")
    ap.add_argument("--list", action="store_true")
    a = ap.parse_args(argv)
    seed = int(os.environ.get("VERIF_SEED", "0") or 0)
    if a.replay:
        from . import report
        return report.replay_file(a.replay)
    from . import props
    if a.list:
        for p in props.PROPERTIES:
            print(p)
        return 0
    if a.prop not in props.PROPERTIES:
        print(f"unknown property {a.prop}")
        return 3
    try:
        return props.run(a.prop, a.tier, seed, bnd=not a.no_bnd)
    except SystemExit:
        raise
    except Exception:  # machinery failure, never a verdict
        traceback.print_exc()
        print(f"MACHINERY-FAILURE property={a.prop}")
        return 3


if __name__ == "__main__":
    sys.exit(main())
