"""Type descriptors used to choose SMT sorts.  Written in contracts as strings ("list[Agent]", "opt[int]", ...).

A descriptor is a tuple:
  ('int',) ('float',) ('bool',) ('str',) ('none',) ('any',)
  ('val',)                    abstract coordinate of a position (opaque handle, Int sort)
  ('enum', 'TaskType')
  ('obj', 'Agent')            reference to an instance (Int sort); class name is the static upper bound
  ('list', T) ('nd', T)       heap-allocated sequence (python list / numpy 1-D array) with element type T
  ('tuple', (T1, ..., Tn))    static tuple (python-level tuple of values)
  ('opt', T)                  T or None
  ('kw', {key: (T, required)})   **kwargs with statically known keys
  ('fn',)                     callable (closures are inlined)
"""
from __future__ import annotations
import ast

ENUMS = {
    "TaskType": ["min", "max"],
    "ModeSolver": ["serial", "thread", "process"],
    "ExportType": ["csv", "json", "dataframe"],
}
ENUM_MEMBERS = {
    "TaskType": {"MIN": 0, "MAX": 1},
    "ModeSolver": {"SERIAL": 0, "THREAD": 1, "PROCESS": 2},
    "ExportType": {"CSV": 0, "JSON": 1, "DATAFRAME": 2},
}

_ATOMS = {"int", "float", "bool", "str", "none", "any", "val", "fn"}


def parse_type(s):
    if isinstance(s, tuple):
        return s
    node = ast.parse(s.strip(), mode="eval").body
    return _from_ast(node)


def _from_ast(n):
    if isinstance(n, ast.Name):
        if n.id in _ATOMS:
            return (n.id,)
        if n.id in ENUMS:
            return ("enum", n.id)
        return ("obj", n.id)
    if isinstance(n, ast.Constant) and n.value is None:
        return ("none",)
    if isinstance(n, ast.Subscript):
        head = n.value.id
        if head in ("list", "nd"):
            return (head, _from_ast(n.slice))
        if head == "opt":
            return ("opt", _from_ast(n.slice))
        if head == "tuple":
            elts = n.slice.elts if isinstance(n.slice, ast.Tuple) else [n.slice]
            return ("tuple", tuple(_from_ast(e) for e in elts))
    if isinstance(n, ast.Dict):          # kw: {"agents": "list[Agent]", "task_type?": "TaskType"}
        d = {}
        for k, v in zip(n.keys, n.values):
            key = k.value
            req = not key.endswith("?")
            d[key.rstrip("?")] = (_from_ast(v) if not isinstance(v, ast.Constant) else parse_type(v.value), req)
        return ("kw", d)
    raise ValueError(f"bad type {ast.unparse(n)}")


def is_ref(t):
    return t[0] in ("obj", "list", "nd", "val")


def show(t):
    if t[0] in ("list", "nd", "opt"):
        return f"{t[0]}[{show(t[1])}]"
    if t[0] in ("obj", "enum"):
        return t[1]
    if t[0] == "tuple":
        return "tuple[" + ", ".join(show(x) for x in t[1]) + "]"
    return t[0]
