"""Source loader: parses the real files of the repository on every run and indexes functions / classes.

Nothing here is a copy of repository code: the tables hold `ast` nodes of the files as they are on disk now.
"""
from __future__ import annotations
import ast, hashlib, os
from dataclasses import dataclass, field

REPO = os.environ.get("PYVC_REPO", "/repo")
PKG = "pyvolutionary"


@dataclass
class ClassInfo:
    qname: str                      # pyvolutionary.models.Agent
    name: str
    module: str
    node: ast.ClassDef
    bases: list[str]                # base names as written
    methods: dict = field(default_factory=dict)   # name -> FunctionDef
    file: str = ""


@dataclass
class ModuleInfo:
    name: str                       # pyvolutionary.helpers
    file: str
    tree: ast.Module
    sha256: str
    src: str
    functions: dict = field(default_factory=dict)  # name -> FunctionDef
    classes: dict = field(default_factory=dict)    # name -> ClassInfo
    imports: dict = field(default_factory=dict)    # local name -> dotted origin


class Source:
    def __init__(self, repo: str | None = None):
        self.repo = repo or REPO
        self.modules: dict[str, ModuleInfo] = {}
        self.classes: dict[str, ClassInfo] = {}     # by qname
        self.classes_by_name: dict[str, list[ClassInfo]] = {}
        self._load()

    def _load(self):
        root = os.path.join(self.repo, PKG)
        for dirpath, dirnames, filenames in os.walk(root):
            dirnames[:] = sorted(d for d in dirnames if d != "__pycache__")
            for fn in sorted(filenames):
                if not fn.endswith(".py"):
                    continue
                path = os.path.join(dirpath, fn)
                rel = os.path.relpath(path, self.repo)
                modname = rel[:-3].replace(os.sep, ".")
                if modname.endswith(".__init__"):
                    modname = modname[: -len(".__init__")]
                with open(path, "rb") as f:
                    raw = f.read()
                src = raw.decode("utf-8")
                tree = ast.parse(src, filename=path)
                mi = ModuleInfo(modname, path, tree, hashlib.sha256(raw).hexdigest(), src)
                is_pkg = fn == "__init__.py"
                for node in tree.body:
                    if isinstance(node, (ast.FunctionDef, ast.AsyncFunctionDef)):
                        mi.functions[node.name] = node
                    elif isinstance(node, ast.ClassDef):
                        ci = ClassInfo(f"{modname}.{node.name}", node.name, modname, node,
                                       [self._base_name(b) for b in node.bases], file=path)
                        for sub in node.body:
                            if isinstance(sub, (ast.FunctionDef, ast.AsyncFunctionDef)):
                                ci.methods[sub.name] = sub
                        mi.classes[node.name] = ci
                        self.classes[ci.qname] = ci
                        self.classes_by_name.setdefault(node.name, []).append(ci)
                    elif isinstance(node, ast.ImportFrom):
                        base = self._resolve_rel(modname, node.module, node.level, is_pkg)
                        for a in node.names:
                            mi.imports[a.asname or a.name] = f"{base}.{a.name}" if base else a.name
                    elif isinstance(node, ast.Import):
                        for a in node.names:
                            mi.imports[a.asname or a.name.split(".")[0]] = a.name
                self.modules[modname] = mi

    @staticmethod
    def _base_name(b: ast.expr) -> str:
        if isinstance(b, ast.Name):
            return b.id
        if isinstance(b, ast.Attribute):
            return b.attr
        if isinstance(b, ast.Subscript):
            return Source._base_name(b.value)
        return ast.unparse(b)

    @staticmethod
    def _resolve_rel(modname: str, module: str | None, level: int, is_pkg: bool) -> str:
        if level == 0:
            return module or ""
        parts = modname.split(".")
        if not is_pkg:
            parts = parts[:-1]
        if level > 1:
            parts = parts[: len(parts) - (level - 1)]
        if module:
            parts = parts + module.split(".")
        return ".".join(parts)

    # ---- lookups -------------------------------------------------------------------------------------------
    def function(self, qname: str):
        """qname: pyvolutionary.helpers.best_agents or pyvolutionary.abstract.OptimizationAbstract.optimize.
        Returns (FunctionDef, ModuleInfo, ClassInfo|None) or None when the target no longer exists."""
        parts = qname.split(".")
        for cut in range(len(parts) - 1, 0, -1):
            mod = ".".join(parts[:cut])
            if mod in self.modules:
                mi = self.modules[mod]
                rest = parts[cut:]
                if len(rest) == 1 and rest[0] in mi.functions:
                    return mi.functions[rest[0]], mi, None
                if len(rest) == 2 and rest[0] in mi.classes and rest[1] in mi.classes[rest[0]].methods:
                    ci = mi.classes[rest[0]]
                    return ci.methods[rest[1]], mi, ci
                return None
        return None

    def resolve_class(self, name: str, module: str | None = None) -> ClassInfo | None:
        """Resolve a class name as seen from `module` (following its imports), else a unique global name."""
        if module and module in self.modules:
            mi = self.modules[module]
            if name in mi.classes:
                return mi.classes[name]
            if name in mi.imports:
                origin = mi.imports[name]
                if origin in self.classes:
                    return self.classes[origin]
                # re-exported through a package __init__
                omod, _, oname = origin.rpartition(".")
                if omod in self.modules and omod != module:
                    return self.resolve_class(oname, omod)
        cands = self.classes_by_name.get(name, [])
        return cands[0] if len(cands) == 1 else None

    def mro(self, ci: ClassInfo) -> list[ClassInfo]:
        """Linearisation by depth-first, left-to-right, duplicates removed (single inheritance in this code base)."""
        out, seen = [], set()

        def walk(c: ClassInfo):
            if c.qname in seen:
                return
            seen.add(c.qname)
            out.append(c)
            for b in c.bases:
                bc = self.resolve_class(b, c.module)
                if bc is not None:
                    walk(bc)
        walk(ci)
        return out

    def find_method(self, ci: ClassInfo, name: str):
        for c in self.mro(ci):
            if name in c.methods:
                return c.methods[name], c
        return None

    def subclasses_of(self, base_qname: str) -> list[ClassInfo]:
        out = []
        for ci in self.classes.values():
            if ci.qname == base_qname:
                continue
            if any(c.qname == base_qname for c in self.mro(ci)):
                out.append(ci)
        return sorted(out, key=lambda c: c.qname)

    def hashes(self, modules: list[str]) -> dict:
        return {m: self.modules[m].sha256 for m in modules if m in self.modules}
