"""Symbolic values, heap and per-path state."""
from __future__ import annotations
import z3
from .types import parse_type, is_ref, ENUMS, show


FIELD_INVARIANTS = {}      # field name -> (z3 term -> z3 Bool): invariants of immutable data structures, assumed at reads


class Unsupported(Exception):
    """Construct outside the supported subset: the obligations of the function become undecided."""


class PathEnd(Exception):
    """The current path ends here (loop body finished after the preservation check, infeasible path...)."""


class PyRaise(Exception):
    def __init__(self, exc: str, where: str = ""):
        super().__init__(exc)
        self.exc = exc
        self.where = where


class BreakLoop(Exception):
    pass


class ContinueLoop(Exception):
    pass


class ReturnValue(Exception):
    def __init__(self, v):
        self.v = v


class V:
    """A symbolic python value.  `t` type descriptor, `z` z3 term (None for static values),
    `none` z3 Bool saying the value is None (None = certainly not None), `items` payload for static kinds."""
    __slots__ = ("t", "z", "none", "items")

    def __init__(self, t, z=None, none=None, items=None):
        self.t = t
        self.z = z
        self.none = none
        self.items = items

    def __repr__(self):
        return f"V<{show(self.t) if self.t[0] not in ('static',) else self.t}:{self.z if self.z is not None else self.items}>"

    @property
    def kind(self):
        return self.t[0]


NONE = V(("none",))


def static(kind, payload):
    return V(("static", kind), items=payload)


def is_static(v, kind=None):
    return v.t[0] == "static" and (kind is None or v.t[1] == kind)


class IncSolver:
    """Incremental solver over the quantifier-free part of a growing path condition."""

    def __init__(self, timeout_ms=300, small_only=False):
        self.s = z3.Solver()
        self.s.set("timeout", timeout_ms)
        self.ids = []
        self.small_only = small_only

    def check(self, pc, extra):
        from .engine import qf_part
        qf = qf_part(pc, self.small_only)
        ids = [f.get_id() for f in qf]
        n = len(self.ids)
        if n <= len(ids) and self.ids == ids[:n]:
            for f in qf[n:]:
                self.s.add(f)
        else:
            self.s.reset()
            self.s.set("timeout", 300)
            for f in qf:
                self.s.add(f)
        self.ids = ids
        self.s.push()
        try:
            self.s.add(extra)
            return self.s.check()
        finally:
            self.s.pop()


class Ctx:
    """Per-function verification context: sorts, fresh names, field table, obligations."""

    def __init__(self, float_mode="real", field_types=None, class_ids=None):
        self.float_mode = float_mode          # 'real' | 'fp'
        self.n = 0
        self.field_types = dict(field_types or {})
        self.class_ids = class_ids or {}
        self.tags = set()
        self.bound_stack = []                 # quantified contexts (comprehension bodies)
        self.dsolver = z3.Solver()
        self.inc = IncSolver()
        self.inc_small = IncSolver(small_only=True)
        self.neg_distinct = {}
        self.type_ids = {}
        self._roots = {}
        self.src = None

    # ---- sorts ------------------------------------------------------------------------------------------
    def fsort(self):
        return z3.Float64() if self.float_mode == "fp" else z3.RealSort()

    def sort_of(self, t):
        k = t[0]
        if k == "opt":
            return self.sort_of(t[1])
        if k == "int" or k == "enum" or is_ref(t):
            return z3.IntSort()
        if k == "float":
            return self.fsort()
        if k == "bool":
            return z3.BoolSort()
        if k == "str":
            return z3.StringSort()
        if k == "any":
            return z3.IntSort()
        raise Unsupported(f"no sort for type {t}")

    def root_class(self, name):
        """top-most class of the repository in the inheritance chain of `name` (GreyWolf -> Agent)"""
        r = self._roots.get(name)
        if r is None:
            r = name
            if self.src is not None:
                ci = self.src.resolve_class(name)
                if ci is not None:
                    r = self.src.mro(ci)[-1].name
            self._roots[name] = r
        return r

    def fresh_name(self, base):
        self.n += 1
        return f"{base}!{self.n}"

    def fresh_z(self, base, sort):
        c = z3.Const(self.fresh_name(base), sort)
        for b in self.bound_stack:
            b["fresh"].append(c)
        return c

    def fresh(self, base, t):
        t = parse_type(t)
        if t[0] == "opt":
            inner = self.fresh(base, t[1])
            inner.none = self.fresh_z(base + "_isnone", z3.BoolSort())
            return inner
        if t[0] == "none":
            return NONE
        if t[0] == "tuple":
            return V(t, items=tuple(self.fresh(f"{base}_{i}", x) for i, x in enumerate(t[1])))
        return V(t, self.fresh_z(base, self.sort_of(t)))

    def fconst(self, x):
        if self.float_mode == "fp":
            return z3.FPVal(float(x), z3.Float64())
        return z3.RealVal(repr(float(x)) if isinstance(x, float) else x)


class State:
    def __init__(self, ctx: Ctx):
        self.ctx = ctx
        self.frames = [{}]
        self.heap = {}                # map name -> z3 array
        self.alloc = z3.Int("alloc0")
        self.pc = []
        self.ghost = {}
        # comprehension (quantified) mode
        self.qmode = None
        self.axs = set()
        self.dcache = {}
        self.dec_ids = set()
        self.tagmap = {}

    def clone(self):
        s = State(self.ctx)
        s.frames = [dict(f) for f in self.frames]
        s.heap = dict(self.heap)
        s.alloc = self.alloc
        s.pc = list(self.pc)
        s.ghost = dict(self.ghost)
        s.qmode = self.qmode
        s.axs = set(self.axs)
        s.dcache = dict(self.dcache)
        s.dec_ids = set(self.dec_ids)
        s.tagmap = dict(self.tagmap)
        return s

    # ---- environment ------------------------------------------------------------------------------------
    @property
    def env(self):
        return self.frames[-1]

    def assume(self, f):
        if z3.is_true(f):
            return
        if z3.is_and(f):
            for c in f.children():       # conjuncts separately: quantifier-free ones stay visible to the path solver
                self.assume(c)
            return
        if self.pc and any(f.get_id() == g.get_id() for g in self.pc[-40:]):
            return
        self.pc.append(f)

    # ---- heap maps --------------------------------------------------------------------------------------
    def map(self, name, sort):
        m = self.heap.get(name)
        if m is None:
            m = z3.Const(name + "0", z3.ArraySort(z3.IntSort(), sort))
            self.heap[name] = m
        return m

    def select(self, m, idx):
        """Select with store-chain resolution: Store(m', a, v)[idx] is v when idx is a, and m'[idx] when the path
        condition proves idx != a (references to distinct objects)."""
        idx = z3.simplify(idx) if not z3.is_const(idx) else idx
        while z3.is_app(m) and m.decl().kind() == z3.Z3_OP_STORE:
            a = m.arg(1)
            if a.get_id() == idx.get_id() or z3.is_true(z3.simplify(a == idx)):
                return m.arg(2)
            if self.distinct(a, idx):
                m = m.arg(0)
                continue
            break
        return z3.simplify(z3.Select(m, idx))

    def distinct(self, a, b):
        d = z3.simplify(a == b)
        if z3.is_false(d):
            return True
        if z3.is_true(d):
            return False
        ta, tb = self.tagmap.get(a.get_id()), self.tagmap.get(b.get_id())
        ta, tb = (ta[0] if ta else None), (tb[0] if tb else None)     # entries keep their term alive: ids are never recycled
        if ta is not None and tb is not None and ta != tb:
            return True           # different dynamic types (sequence element type / class family): different objects
        key = (a.get_id(), b.get_id())
        hit = self.dcache.get(key)
        if hit is not None:
            L, last = hit
            if L <= len(self.pc) and (L == 0 or self.pc[L - 1] is last):
                return True
        neg = self.ctx.neg_distinct.get(key)
        if neg is not None and neg == len(self.pc):
            return False
        if self.ctx.inc_small.check(self.pc, d) == z3.unsat:
            self.dcache[key] = (len(self.pc), self.pc[-1] if self.pc else None)
            return True
        self.ctx.neg_distinct[key] = len(self.pc)
        return False

    def field_type(self, fname):
        ft = self.ctx.field_types.get(fname)
        if ft is None:
            raise Unsupported(f"field '{fname}' has no declared type")
        return parse_type(ft)

    def type_tag(self, v):
        """python's dynamic typing: sequences of different element types are different objects.  ltype(ref) is a
        global tag function; every typed sequence value met on the path gets its tag."""
        if v.z is None:
            return
        label = None
        if v.t[0] in ("list", "nd"):
            label = show(v.t)
            if v.t[1][0] == "obj":
                # a list of subclass instances may be read back through a field declared with the base class: one tag per
                # class family (two tags for one list would make the path condition inconsistent, i.e. every goal provable)
                label = f"{v.t[0]}[obj:{self.ctx.root_class(v.t[1][1])}]"
        elif v.t[0] == "obj":
            label = "obj:" + self.ctx.root_class(v.t[1])      # objects of unrelated class families are different objects
        if label is None:
            return
        tid = self.ctx.type_ids.setdefault(label, len(self.ctx.type_ids) + 1)
        k = _key(v.z)
        if k in self.tagmap and self.tagmap[k][0] == tid:
            return
        if k in self.tagmap:
            # the same reference met with two different static types: assuming both tags would make the path condition
            # inconsistent and every goal on it provable - refuse to generate obligations instead (undecided, never a pass)
            raise Unsupported(f"one reference typed {label} and (earlier) with tag {self.tagmap[k][0]}: conflicting static types")
        if v.none is None:
            self.tagmap[k] = (tid, v.z)      # the term is stored with its tag, so that its z3 id cannot be reused
        f = z3.Function("ltype", z3.IntSort(), z3.IntSort())(v.z) == tid
        self.assume(z3.Implies(z3.Not(v.none), f) if v.none is not None else f)

    def _wf_ref(self, v):
        self.type_tag(v)
        if v.t[0] in ("list", "nd") and v.z is not None and self.qmode is None:
            ln = z3.Select(self.map("len", z3.IntSort()), v.z) >= 0      # a sequence has a non-negative length
            self.assume(z3.Implies(z3.Not(v.none), ln) if v.none is not None else ln)
        if v.t[0] == "enum" and v.z is not None:
            self.assume(z3.And(v.z >= 0, v.z < len(ENUMS[v.t[1]])))
        if is_ref(v.t) and v.z is not None:
            f = z3.And(v.z >= 0, v.z < self.alloc)
            self.assume(z3.Implies(z3.Not(v.none), f) if v.none is not None else f)

    def read_field(self, obj: V, fname: str) -> V:
        ft = self.field_type(fname)
        q = self.qmode
        if q is not None and fname in q["overlay"].get(_key(obj.z), {}):
            return q["overlay"][_key(obj.z)][fname]
        return self._read_field_at(obj.z, fname, ft)

    def _read_field_at(self, ref, fname, ft):
        none = None
        t = ft
        if ft[0] == "opt":
            t = ft[1]
            none = self.select(self.map("fnone_" + fname, z3.BoolSort()), ref)
        if t[0] == "tuple":
            raise Unsupported("tuple-typed field")
        z = self.select(self.map("f_" + fname, self.ctx.sort_of(t)), ref)
        v = V(t, z, none)
        self._wf_ref(v)
        if fname in FIELD_INVARIANTS and self.qmode is None:
            self.assume(FIELD_INVARIANTS[fname](z))       # data-structure invariant of the owning class (stated in decls.py)
        return v

    def write_field(self, obj: V, fname: str, val: V):
        if fname not in self.ctx.field_types and val.z is not None and val.t[0] in ("int", "float", "bool", "str", "enum", "obj", "list", "nd"):
            # a field the contracts do not know (e.g. a new private attribute): its sort is taken from the first value stored
            self.ctx.field_types[fname] = val.t if val.none is None else ("opt", val.t)
        ft = self.field_type(fname)
        q = self.qmode
        if q is not None:
            k = _key(obj.z)
            if k in q["new"]:
                q["overlay"].setdefault(k, {})[fname] = val
                return
            raise Unsupported("write to a pre-existing object inside a comprehension body")
        t = ft[1] if ft[0] == "opt" else ft
        if ft[0] == "opt":
            nm = self.map("fnone_" + fname, z3.BoolSort())
            isnone = z3.BoolVal(True) if val.t[0] == "none" else (val.none if val.none is not None else z3.BoolVal(False))
            self.heap["fnone_" + fname] = z3.Store(nm, obj.z, isnone)
            if val.t[0] == "none":
                return
        elif val.t[0] == "none":
            raise Unsupported(f"None stored into non-optional field {fname}")
        elif val.none is not None:
            if self.ctx.inc.check(self.pc, val.none) != z3.unsat:
                raise Unsupported(f"possibly-None value stored into non-optional field {fname}")
        m = self.map("f_" + fname, self.ctx.sort_of(t))
        self.heap["f_" + fname] = z3.Store(m, obj.z, self.coerce(val, t).z)

    def init_field(self, obj: V, fname: str, val: V):
        """First initialisation of a field of an object allocated on this path.  Cells of unallocated references are
        unconstrained (every quantified heap fact is guarded by `o < alloc` or by membership), so the content an
        object gets at allocation is *assumed* on the current maps instead of being stored: allocation leaves the
        maps - and therefore every fact about pre-existing objects - syntactically unchanged."""
        if self.qmode is not None:
            return self.write_field(obj, fname, val)
        ft = self.field_type(fname)
        t = ft[1] if ft[0] == "opt" else ft
        if ft[0] == "opt":
            isnone = z3.BoolVal(True) if val.t[0] == "none" else (val.none if val.none is not None else z3.BoolVal(False))
            self.assume(self.select(self.map("fnone_" + fname, z3.BoolSort()), obj.z) == isnone)
            if val.t[0] == "none":
                return
        elif val.t[0] == "none":
            raise Unsupported(f"None stored into non-optional field {fname}")
        self.assume(self.select(self.map("f_" + fname, self.ctx.sort_of(t)), obj.z) == self.coerce(val, t).z)

    def coerce(self, val: V, t):
        """int -> float coercion where a float is expected (python semantics of arithmetic/comparison)."""
        if t[0] == "float" and val.t[0] in ("int", "bool"):
            return V(("float",), self.to_float(val).z)
        return val

    def to_float(self, v: V) -> V:
        if v.t[0] == "float":
            return v
        z = v.z
        if v.t[0] == "bool":
            z = z3.If(z, 1, 0)
        if self.ctx.float_mode == "fp":
            return V(("float",), z3.fpToFP(z3.RNE(), z3.ToReal(z), z3.Float64()))
        return V(("float",), z3.simplify(z3.ToReal(z)))

    # ---- allocation -------------------------------------------------------------------------------------
    def new_ref(self, base="obj"):
        r = z3.simplify(self.alloc)
        self.alloc = r + 1
        if self.qmode is not None:
            self.qmode["new"].add(_key(r))
            self.qmode["newrefs"].append(r)
        return r

    def havoc_alloc(self):
        """A callee may allocate any number of objects."""
        a = self.ctx.fresh_z("alloc", z3.IntSort())
        self.assume(a >= self.alloc)
        self.alloc = a

    # ---- sequences --------------------------------------------------------------------------------------
    def el_map_name(self, et):
        s = self.ctx.sort_of(et)
        return "el_" + str(s).replace("(", "_").replace(")", "").replace(" ", "").replace(",", "_")

    def seq_len(self, lst: V):
        q = self.qmode
        if q is not None and "len" in q["overlay"].get(_key(lst.z), {}):
            return q["overlay"][_key(lst.z)]["len"]
        return self.select(self.map("len", z3.IntSort()), lst.z)

    def seq_elems(self, lst: V):
        """array Int -> elem of the sequence's current content"""
        et = lst.t[1]
        q = self.qmode
        if q is not None and "elems" in q["overlay"].get(_key(lst.z), {}):
            return q["overlay"][_key(lst.z)]["elems"]
        name = self.el_map_name(et)
        return self.select(self.map(name, z3.ArraySort(z3.IntSort(), self.ctx.sort_of(et))), lst.z)

    def seq_get(self, lst: V, idx) -> V:
        et = lst.t[1]
        if et[0] in ("opt", "tuple"):
            raise Unsupported("sequence of optional/tuple elements")
        v = V(et, z3.Select(self.seq_elems(lst), idx))
        self._wf_ref(v)
        return v

    def seq_set_content(self, lst: V, length, elems):
        et = lst.t[1]
        q = self.qmode
        if q is not None:
            k = _key(lst.z)
            if k not in q["new"]:
                raise Unsupported("mutation of a pre-existing list inside a comprehension body")
            q["overlay"].setdefault(k, {})["len"] = length
            q["overlay"][k]["elems"] = elems
            return
        name = self.el_map_name(et)
        lm = self.map("len", z3.IntSort())
        em = self.map(name, z3.ArraySort(z3.IntSort(), self.ctx.sort_of(et)))
        self.heap["len"] = z3.Store(lm, lst.z, length)
        self.heap[name] = z3.Store(em, lst.z, elems)

    def new_seq(self, et, kind="list", length=None, elems=None, base="lst") -> V:
        r = self.new_ref(base)
        v = V((kind, et), r)
        self.type_tag(v)
        if length is None:
            length = z3.IntVal(0)
        if self.qmode is not None:
            if elems is None:
                elems = self.ctx.fresh_z("elems", z3.ArraySort(z3.IntSort(), self.ctx.sort_of(et)))
            self.seq_set_content(v, length, elems)
            return v
        # fresh cell: its content is assumed, the maps are not modified (see init_field)
        self.assume(self.select(self.map("len", z3.IntSort()), r) == length)
        if elems is not None:
            name = self.el_map_name(et)
            self.assume(self.select(self.map(name, z3.ArraySort(z3.IntSort(), self.ctx.sort_of(et))), r) == elems)
        return v


def _key(z):
    return z.get_id() if z is not None else None
