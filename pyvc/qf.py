def qforall(vs, body, patterns=None):
    from .builtins import qforall as _q
    return _q(vs, body, patterns)
