"""Bounded scenario checks for HyperTuner (C19) and Multitask (C20): the run-time form of their contracts on the enumerated
family the properties name (1..3 keys x 1..3 values; n, m in 1..3 and the four shapes of `modes`).  ParameterGrid uses
generators / itertools.product and HyperTuner / Multitask use pandas and process pools: outside the VC subset, so these two
properties are decided by bounded checks only (labelled bounded)."""
from __future__ import annotations
import glob, itertools, json, os, shutil, sys, tempfile

REPO = os.environ.get("PYVC_REPO", "/repo")
sys.path.insert(0, REPO)

_FAKE = {}


def _fake_classes():
    """module-level (picklable) scripted optimizer: cost is a table lookup on its configuration, calls are logged to a file"""
    if _FAKE:
        return _FAKE
    from pyvolutionary.abstract import OptimizationAbstract
    from pyvolutionary.models import (BaseOptimizationConfig, OptimizationResult, Agent, Population, Task,
                                      ContinuousMultiVariable)
    from pyvolutionary.enums import TaskType
    from pydantic import field_validator

    class ScriptedConfig(BaseOptimizationConfig):
        population_size: int = 2
        max_cycles: int = 1
        a: int = 0
        b: int = 0
        c: int = 0
        d: int | None = 7           # an optional parameter whose default is not None

        @field_validator("a")
        def _a_not_negative(cls, v):
            if v < 0:
                raise ValueError("a must not be negative")
            return v
        log: str = ""
        label: str = "S"

    class ScriptedOptimization(OptimizationAbstract):
        def __init__(self, config: ScriptedConfig | None = None, debug: bool | None = False):
            super().__init__(config, debug)

        def set_config_parameters(self, parameters):
            self._config = ScriptedConfig(**parameters)

        def optimization_step(self):
            pass

        def optimize(self, task, mode=None, workers=None):
            cfg = self._config
            import fcntl
            key = f"{cfg.a},{cfg.b},{cfg.c}"
            cost = task.data["table"][key] if task.data and "table" in task.data else float(cfg.a)
            with open(cfg.log or task.data["log"], "a+") as f:
                fcntl.flock(f, fcntl.LOCK_EX)          # calls from the trial pool are serialised on the log
                f.seek(0)
                seen = sum(1 for l in f if l.strip() and json.loads(l)["params"] == [cfg.a, cfg.b, cfg.c] and json.loads(l)["task"] == type(task).__name__)
                if isinstance(cost, list):
                    cost = cost[seen % len(cost)]      # one value per trial: the k-th call with these parameters gets the k-th value
                f.seek(0, 2)
                f.write(json.dumps({"algo": cfg.label, "cls": type(self).__name__, "params": [cfg.a, cfg.b, cfg.c], "d": cfg.d,
                                    "task": type(task).__name__, "mode": mode, "workers": workers}) + "\n")
                f.flush()
                fcntl.flock(f, fcntl.LOCK_UN)
            a = Agent(position=[0.0], cost=cost if task.minmax == TaskType.MIN else -cost, fitness=1.0)
            return OptimizationResult(evolution=[Population(agents=[a], task_type=task.minmax)], rates=[0.5], best_solution=a,
                                      task_type=task.minmax)

    class ScriptedB(ScriptedOptimization):
        pass

    class ScriptedC(ScriptedOptimization):
        pass

    def mk_task(name):
        return type(name, (Task,), {"objective_function": lambda self, x: 0.0, "__module__": __name__})
    tasks = {n: mk_task(n) for n in ("TaskA", "TaskB", "TaskC")}
    for cls in (ScriptedConfig, ScriptedOptimization, ScriptedB, ScriptedC):
        cls.__module__ = __name__
        cls.__qualname__ = cls.__name__
        globals()[cls.__name__] = cls
    for n, t in tasks.items():
        t.__qualname__ = n
        globals()[n] = t
    _FAKE.update(dict(Config=ScriptedConfig, Opt=ScriptedOptimization, OptB=ScriptedB, OptC=ScriptedC, tasks=tasks,
                      V=lambda: [ContinuousMultiVariable(name="x", lower_bounds=[0.0], upper_bounds=[1.0])]))
    return _FAKE


def c19():
    out = []

    def law(desc, ok, msg=""):
        out.append(("C19", desc, bool(ok), msg))
    from pyvolutionary.hypertuner import ParameterGrid, HyperTuner
    F = _fake_classes()
    keys = ["a", "b", "c"]
    vals = [[1], [1, 2], [3, 1, 2]]
    grids = []
    for nk in (1, 2, 3):
        for combo in itertools.product(vals, repeat=nk):
            grids.append({k: list(v) for k, v in zip(keys, combo)})
    # the same grids with the keys inserted in another order, and with realistic (non-alphabetical) parameter names
    for g in list(grids):
        if len(g) >= 2:
            grids.append({k: g[k] for k in reversed(list(g))})
    grids += [{"population_size": [10, 20], "max_cycles": [5, 7]}, {"w": [1, 2], "c2": [3], "c1": [4, 5]},
              {"population_size": [10, 20], "max_cycles": [5, 7], "alpha": [1, 2, 3]}]
    multi = [[grids[0], grids[5]], [grids[7], {}, grids[2]], [{}], [grids[20], grids[1], grids[9]],
             [{"z": [1, 2], "y": [3, 4]}, {"b": [1], "a": [2, 3]}]]
    for g in grids + multi:
        G = ParameterGrid(g)
        lst = list(G)
        subs = g if isinstance(g, list) else [g]
        exp = []
        for sg in subs:
            items = sorted(sg.items())
            if not items:
                exp.append({})
            else:
                ks, vs = zip(*items)
                exp += [dict(zip(ks, c)) for c in itertools.product(*vs)]
        law(f"grid {g}: iteration = union of the products of the key-sorted value lists", lst == exp, f"{lst}")
        law(f"grid {g}: len agrees with iteration", len(G) == len(lst), f"{len(G)} vs {len(lst)}")
        law(f"grid {g}: indexing agrees with iteration", all(G[i] == lst[i] for i in range(len(lst))))
        for bad in (len(lst), len(lst) + 3):
            try:
                G[bad]
                law(f"grid {g}: index {bad} rejected", False, "no IndexError")
            except IndexError:
                law(f"grid {g}: index {bad} rejected", True)
    # execute: every grid point once per trial with exactly its parameters; best in the task's direction
    tmp = tempfile.mkdtemp(prefix="c19_")
    try:
        tables = [
            {"1,0,0": 5.0, "2,0,0": 3.0, "3,0,0": 4.0},
            {"1,0,0": 2.0, "2,0,0": 2.0, "3,0,0": 7.0},       # tie
            {"1,1,0": 1.0, "1,2,0": 9.0, "2,1,0": 4.0, "2,2,0": -3.0, "3,1,0": 0.0, "3,2,0": 8.5},
        ]
        grids_e = [{"a": [1, 2, 3]}, {"a": [1, 2, 3]}, {"a": [1, 2, 3], "b": [1, 2]}]
        for table, grid, (mm, n_trials) in itertools.product(list(zip(tables, grids_e)), [None], [("min", 1), ("max", 2), ("min", 3), ("max", 1)]):
            table, grid = table
            log = os.path.join(tmp, f"log_{len(os.listdir(tmp))}.jsonl")
            open(log, "w").close()
            T = F["tasks"]["TaskA"]
            task = T(variables=F["V"](), minmax=mm, data={"table": table, "log": log})
            ht = HyperTuner(F["Opt"](), dict(grid))
            ht.execute(task, n_trials=n_trials, n_jobs=2)
            calls = [json.loads(l) for l in open(log)]
            pts = list(ParameterGrid(grid))
            want = sorted((p.get("a", 0), p.get("b", 0), p.get("c", 0)) for p in pts for _ in range(n_trials))
            got = sorted(tuple(c["params"]) for c in calls)
            law(f"execute {grid} x{n_trials} {mm}: every grid point exactly once per trial with its own parameters", got == want, f"{got} vs {want}")
            means = {json.dumps(p, sort_keys=True): table[f"{p.get('a', 0)},{p.get('b', 0)},{p.get('c', 0)}"] for p in pts}
            best = (max if mm == "max" else min)(means.values())
            bp = ht.best_parameters
            law(f"execute {grid} x{n_trials} {mm}: best_parameters is a grid point", bp in pts, f"{bp}")
            law(f"execute {grid} x{n_trials} {mm}: best mean is optimal in the task's direction",
                bp in pts and means[json.dumps(bp, sort_keys=True)] == best, f"chose {bp} (mean {means.get(json.dumps(bp, sort_keys=True))}), optimum {best}")
            law(f"execute {grid} x{n_trials} {mm}: best_score is that mean", ht.best_score == best, f"{ht.best_score} vs {best}")
            open(log, "w").close()
            ht.resolve()
            rc = [json.loads(l) for l in open(log)]
            law(f"resolve {grid} {mm}: runs the optimizer with the best parameters",
                len(rc) == 1 and bp in pts and tuple(rc[0]["params"]) == (bp.get("a", 0), bp.get("b", 0), bp.get("c", 0)), f"{rc}")
        # score tables whose best mean has the larger spread (3 trials, run one at a time so that the k-th call gets the k-th value)
        vtables = [({"1,0,0": [1.0, 9.0, 5.0], "2,0,0": [6.0, 6.0, 6.0], "3,0,0": [6.5, 7.5, 7.0]}, "min", 5.0),
                   ({"1,0,0": [9.0, 9.0, 9.0], "2,0,0": [8.0, 12.0, 10.0], "3,0,0": [9.5, 9.4, 9.6]}, "max", 10.0)]
        # near-tied means: the optimum must win by its mean however small the margin (well-converged runs: costs ~1e-8)
        vtables += [({"1,0,0": [3e-8, 3e-8, 3e-8], "2,0,0": [1e-8, 4e-8, 2.5e-8], "3,0,0": [1.0, 1.0, 1.0]}, "min", 2.5e-8),
                    ({"1,0,0": [0.75000001, 0.75000001, 0.75000001], "2,0,0": [0.65000004, 0.85000004, 0.75000004], "3,0,0": [0.1, 0.1, 0.1]},
                     "max", 0.75000004),
                    ({"1,0,0": [2.0000002, 2.0000002, 2.0000002], "2,0,0": [1.0000001, 3.0000001, 2.0000001], "3,0,0": [5.0, 5.0, 5.0]}, "min", 2.0000001)]
        # means that differ by less than any absolute tolerance one might round to (well-converged optimizers report costs of
        # 1e-30 and below; large plateaus differ in the 13th digit): the optimum still wins by its mean
        vtables += [({"1,0,0": [1.2e-32] * 3, "2,0,0": [1.7e-60] * 3, "3,0,0": [5.8e-115] * 3}, "min", None),
                    ({"1,0,0": [-1.2e-32] * 3, "2,0,0": [-1.7e-60] * 3, "3,0,0": [-5.8e-115] * 3}, "max", None),
                    ({"1,0,0": [5.0000000000002] * 3, "2,0,0": [5.0000000000001] * 3, "3,0,0": [7.0] * 3}, "min", None),
                    ({"1,0,0": [5.0000000000001] * 3, "2,0,0": [5.0000000000002] * 3, "3,0,0": [1.0] * 3}, "max", None),
                    ({"1,0,0": [3e-13, 3e-13, 3e-13], "2,0,0": [1e-13, 4e-13, 2.5e-13], "3,0,0": [1.0, 1.0, 1.0]}, "min", None)]
        for table, mm, best in vtables:
            if best is None:
                best = (max if mm == "max" else min)(sum(v) / len(v) for v in table.values())
            log = os.path.join(tmp, f"log_{len(os.listdir(tmp))}.jsonl")
            open(log, "w").close()
            task = F["tasks"]["TaskA"](variables=F["V"](), minmax=mm, data={"table": table, "log": log})
            ht = HyperTuner(F["Opt"](), {"a": [1, 2, 3]})
            ht.execute(task, n_trials=3, n_jobs=2)
            tol = 1e-9 * abs(best)            # relative: the score is a mean of the values, up to rounding of the summation
            best_a = (max if mm == "max" else min)(table.items(), key=lambda kv: sum(kv[1]) / len(kv[1]))[0]
            best_a = int(best_a.split(",")[0])          # the tables have a unique optimum
            law(f"execute with differing variances {mm} (optimum {best}): best mean wins whatever the spread",
                abs(ht.best_score - best) <= tol and ht.best_parameters == {"a": best_a},
                f"best_score {ht.best_score}, best_parameters {ht.best_parameters}, optimum {best}")
        # a grid value None is a value like any other: the point is evaluated with it (not with the model's default)
        log = os.path.join(tmp, "log_none.jsonl")
        open(log, "w").close()
        task = F["tasks"]["TaskA"](variables=F["V"](), minmax="min", data={"table": {"1,0,0": 3.0, "2,0,0": 1.0}, "log": log})
        ht = HyperTuner(F["Opt"](), {"a": [1, 2], "d": [None, 3]})
        ht.execute(task, n_trials=1, n_jobs=2)
        got = sorted((c["params"][0], -1 if c["d"] is None else c["d"]) for c in (json.loads(l) for l in open(log)))
        law("execute with a None grid value: every point is evaluated with exactly its parameters (None included)",
            got == [(1, -1), (1, 3), (2, -1), (2, 3)], f"{got}")
        open(log, "w").close()
        ht.resolve()
        rc = [json.loads(l) for l in open(log)]
        law("resolve with a None grid value: the best parameters are used as they are",
            len(rc) == 1 and rc[0]["params"][0] == ht.best_parameters.get("a") and rc[0]["d"] == ht.best_parameters.get("d"), f"{rc} / {ht.best_parameters}")
        # a grid point the configuration model rejects (a < 0): the grid is refused, or at least never run under other parameters
        log = os.path.join(tmp, "log_rej.jsonl")
        open(log, "w").close()
        task = F["tasks"]["TaskA"](variables=F["V"](), minmax="min", data={"table": {"1,0,0": 3.0, "-1,0,0": 1.0, "2,0,0": 5.0}, "log": log})
        ht = HyperTuner(F["Opt"](), {"a": [1, -1, 2]})
        refused = False
        try:
            ht.execute(task, n_trials=1, n_jobs=2)
        except Exception:  # noqa
            refused = True
        got = sorted(c["params"][0] for c in (json.loads(l) for l in open(log)))
        law("execute with a grid point the configuration rejects: refused, and no point is run under another point's parameters",
            refused and all(g in (1, 2) for g in got) and len(got) == len(set(got)), f"refused={refused} calls={got}")
        # the same tuner executed twice: the second call answers for the second call only
        log = os.path.join(tmp, "log_twice.jsonl")
        open(log, "w").close()
        t1 = F["tasks"]["TaskA"](variables=F["V"](), minmax="min", data={"table": {"1,0,0": 9.0, "2,0,0": 1.0, "3,0,0": 5.0}, "log": log})
        t2 = F["tasks"]["TaskB"](variables=F["V"](), minmax="max", data={"table": {"1,0,0": 0.2, "2,0,0": 0.1, "3,0,0": 0.7}, "log": log})
        ht = HyperTuner(F["Opt"](), {"a": [1, 2, 3]})
        ht.execute(t1, n_trials=1, n_jobs=2)
        first = (ht.best_parameters, ht.best_score)
        ht.execute(t2, n_trials=2, n_jobs=2)
        law("execute twice on one tuner: first answer", first == ({"a": 2}, 1.0), f"{first}")
        law("execute twice on one tuner: the second call ranks the second call's scores only",
            ht.best_parameters == {"a": 3} and ht.best_score == 0.7 and len(ht._df_fit) == 3,
            f"best {ht.best_parameters} score {ht.best_score} rows {len(ht._df_fit)}")
    finally:
        shutil.rmtree(tmp, ignore_errors=True)
    return out


def c20():
    out = []

    def law(desc, ok, msg=""):
        out.append(("C20", desc, bool(ok), msg))
    from pyvolutionary.multitask import Multitask
    F = _fake_classes()
    tmp = tempfile.mkdtemp(prefix="c20_")
    try:
        log = os.path.join(tmp, "log.jsonl")
        algo_classes = [F["Opt"], F["OptB"], F["OptC"]]
        task_classes = list(F["tasks"].values())
        MODES = ["serial", "thread", "process"]
        for n, m in itertools.product((1, 2, 3), (1, 2, 3)):
            algos = tuple(algo_classes[i](F["Config"](a=i + 1, log=log, label=f"A{i}")) for i in range(n))
            tasks = tuple(task_classes[j](variables=F["V"]()) for j in range(m))
            shapes = {"none": None, "one": ("thread",)}
            shapes["per-algorithm"] = tuple(MODES[i % 3] for i in range(n))
            shapes["per-task"] = tuple(MODES[(j + 1) % 3] for j in range(m))
            shapes["per-pair"] = tuple(MODES[(i * m + j) % 3] for i in range(n) for j in range(m))
            for sname, modes in shapes.items():
                def designated(i, j):
                    if modes is None:
                        return "serial"
                    if len(modes) == 1:
                        return modes[0]
                    if len(modes) == n:              # documented order: per-algorithm first (also when n == m)
                        return modes[i]
                    if len(modes) == m:
                        return modes[j]
                    return modes[i * m + j]
                if sname in ("per-task",) and m == n:
                    continue                          # indistinguishable from per-algorithm by length: covered above
                if sname == "per-pair" and (n * m in (1, n, m)):
                    continue
                if sname == "per-algorithm" and n == 1:
                    continue
                for n_trials, n_w in ((1, 3), (2, 3), (1, 1)):
                    open(log, "w").close()
                    try:
                        mt = Multitask(algos, tasks, modes=modes, n_workers=n_w)
                        mt.execute(n_trials=n_trials, n_jobs=2)
                    except Exception as ex:
                        law(f"n={n} m={m} modes={sname} trials={n_trials}: runs", False, f"{type(ex).__name__}: {ex}")
                        continue
                    calls = [json.loads(l) for l in open(log)]
                    want = sorted((f"A{i}", task_classes[j].__name__, designated(i, j)) for i in range(n) for j in range(m) for _ in range(n_trials))
                    got = sorted((c["algo"], c["task"], c["mode"]) for c in calls)
                    law(f"n={n} m={m} modes={sname} trials={n_trials} workers={n_w}: every pair, n_trials times, in its designated mode", got == want,
                        f"got {got[:4]}... want {want[:4]}...")
                    law(f"n={n} m={m} modes={sname} workers={n_w}: workers passed on", all(c["workers"] == n_w for c in calls))
                    ok = len(mt._df2) == n and all(df.shape == (n_trials, m) for df in mt._df2)
                    law(f"n={n} m={m} modes={sname} trials={n_trials}: one table per algorithm, a column per task, a row per trial", ok,
                        f"{[df.shape for df in mt._df2]}")
            if n == 2 and m == 3:
                shared = tempfile.mkdtemp(prefix="c20_shared_", dir=tmp)       # the documented sequence: three formats, one folder
                for fmt, ext in (("csv", "csv"), ("dataframe", "pkl"), ("json", "json")):
                    mt.export_results(fmt, shared)
                    files = sorted(os.path.relpath(p, shared) for p in glob.glob(shared + "/**/*." + ext, recursive=True))
                    law(f"export {fmt} into a folder that already holds other exports: one file per algorithm",
                        len(files) == n and sorted(os.path.dirname(f) for f in files) == sorted(a.name for a in algos), f"{files}")
                for fmt, ext in (("csv", "csv"), ("json", "json"), ("dataframe", "pkl")):
                    d = tempfile.mkdtemp(prefix="c20_out_", dir=tmp)
                    mt.export_results(fmt, d)
                    files = sorted(os.path.relpath(p, d) for p in glob.glob(d + "/**/*." + ext, recursive=True))
                    names = sorted(a.name for a in algos)
                    ok = len(files) == n and sorted(os.path.dirname(f) for f in files) == names
                    law(f"export {fmt}: one file per algorithm under <save_path>/<algorithm name>/", ok, f"{files}")
        for bad in (("bogus",), ("serial", "turbo"), ("SERIAL",), ("thread", "THREAD"), ("Process",), ("",), ("ModeSolver.SERIAL",)):
            try:
                Multitask((F["Opt"](F["Config"](log=log)), F["OptB"](F["Config"](log=log))), (task_classes[0](variables=F["V"]()),), modes=bad)
                law(f"unknown mode {bad} rejected at construction", False, "accepted")
            except ValueError:
                law(f"unknown mode {bad} rejected at construction", True)
    finally:
        shutil.rmtree(tmp, ignore_errors=True)
    return out


def c04():
    """prescribed rate histories through the real optimize() loop (a scripted optimizer sets the fitness of each generation):
    the run must stop at the first cycle where the Stop predicate of the statement holds"""
    import itertools as it
    from pyvolutionary.abstract import OptimizationAbstract
    from pyvolutionary.models import BaseOptimizationConfig, Agent, Task, ContinuousMultiVariable, EarlyStopping
    from .bnd import stop_spec
    import io, contextlib

    class Hist(OptimizationAbstract):
        def set_config_parameters(self, parameters):
            self._config = BaseOptimizationConfig(**parameters)

        def _gen(self, k):
            r = self._task.data["rates"][min(k, len(self._task.data["rates"]) - 1)]
            return [Agent(position=[0.5], cost=float(j), fitness=1.0 - r) for j in range(2)]

        def _init_population(self):
            self._population = self._gen(0)

        def optimization_step(self):
            self._population = self._gen(self._current_cycle)

    class HT(Task):
        def objective_function(self, x):
            return 0.0
    out = []
    vals = [0.0, 0.05, 0.3, 0.31, 0.6]
    cfgs = []
    for mc in (1, 3, 5):
        for fe in (None, 0.0, 0.3):
            for es in (None, (1, 0.1), (2, 0.05), (2, 1.0), (3, 1.0), (None, 0.5), (2, None), (None, None)):   # None = model default
                cfgs.append((mc, fe, es))
    hists = list(it.product(vals, repeat=4))[::3] + [(0.6, 0.5, 0.45, 0.42, 0.41, 0.405), (0.3, 0.3, 0.3, 0.3), (0.0, 0.0, 0.0, 0.0),
                                                     (0.31, 0.3, 0.29, 0.0), (0.6, 0.59, 0.58, 0.57, 0.56)]
    sink = io.StringIO()
    for mc, fe, es in cfgs:
        for h in hists:
            rates = (0.9,) + tuple(h)           # rate of the initial generation is not part of the rule
            cfg = BaseOptimizationConfig(population_size=2, max_cycles=mc, fitness_error=fe,
                                         early_stopping=EarlyStopping(patience=es[0], min_delta=es[1]) if es else None)
            t = HT(variables=[ContinuousMultiVariable(name="x", lower_bounds=[0.0], upper_bounds=[1.0])], data={"rates": list(rates)})
            with contextlib.redirect_stdout(sink):
                res = Hist(cfg).optimize(t)
            K = len(res.rates)
            exp_rates = [abs(1 - (1.0 - rates[min(k, len(rates) - 1)])) for k in range(1, K + 1)]
            desc = f"max_cycles={mc} fitness_error={fe} early_stopping={es} rates={list(h)}"
            ok = len(res.evolution) == K + 1 and 1 <= K <= mc and all(abs(a - b) < 1e-12 for a, b in zip(res.rates, exp_rates))
            if ok:
                ok = stop_spec(cfg, K, res.rates) and not any(stop_spec(cfg, k, res.rates[:k]) for k in range(1, K))
            out.append(("C04", desc, ok, f"ran {K} cycles, rates {res.rates}"))
    return out


def run(pid):
    return {"C19": c19, "C20": c20, "C04": c04}[pid]()


if __name__ == "__main__":
    for p in sys.argv[1:] or ("C19", "C20"):
        r = run(p)
        bad = [x for x in r if not x[2]]
        print(p, len(r), "checks,", len(bad), "violated")
        for b in bad[:10]:
            print("   ", b[1], "|", b[3][:200])
