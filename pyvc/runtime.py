"""Run-time interpretation of the same contract clauses (DESIGN §2.6): used to replay counterexamples on the real
code, for the short concrete witness search (§2.4 step 4) and for the CPython audit of the encoder (§2.7).

Clauses are plain python expressions; here they are evaluated by CPython itself with the python side of the
specification vocabulary below."""
from __future__ import annotations
import ast, copy, itertools, math, random
import numpy as np


class Env:
    """state captured around one monitored call"""

    def __init__(self, args: dict):
        self.args = args
        self.pre_ids = set()
        self.keepalive = []
        self.pre_lists = {}      # id(list) -> shallow copy
        self.pre_models = {}     # id(model) -> (model, dict of shallow field copies)
        self._walk(list(args.values()))
        self.old_args = copy.deepcopy(args)

    def _walk(self, roots):
        from pydantic import BaseModel
        stack = list(roots)
        while stack:
            o = stack.pop()
            if o is None or isinstance(o, (int, float, str, bool, bytes)):
                continue
            if id(o) in self.pre_ids:
                continue
            self.pre_ids.add(id(o))
            self.keepalive.append(o)
            if isinstance(o, (list, tuple)):
                if isinstance(o, list):
                    self.pre_lists[id(o)] = list(o)
                stack.extend(o)
            elif isinstance(o, dict):
                stack.extend(o.values())
            elif isinstance(o, BaseModel):
                snap = {}
                for k, v in o.__dict__.items():
                    snap[k] = list(v) if isinstance(v, list) else v
                    stack.append(v)
                self.pre_models[id(o)] = (o, snap)
            elif hasattr(o, "__dict__") and not callable(o):
                stack.extend(vars(o).values())


def _tt_is_max(tt):
    return tt is not None and str(getattr(tt, "value", tt)) == "max"


def sigma_perm(pop, tt):
    idx = list(range(len(pop)))
    idx.sort(key=lambda i: pop[i].cost, reverse=_tt_is_max(tt))   # python's sort is stable in both directions
    return idx


def make_vocabulary(env: Env | None):
    def sigma(pop, tt, k):
        p = sigma_perm(pop, tt)
        return p[k] if 0 <= k < len(p) else -1

    def sigma_inv(pop, tt, j):
        return sigma_perm(pop, tt).index(j)

    def better(tt, a, b):
        return a > b if _tt_is_max(tt) else a < b

    def implies(a, b):
        return (not a) or b

    def fresh(x):
        if isinstance(x, tuple):
            return all(fresh(i) for i in x)
        return id(x) not in env.pre_ids

    def unchanged(x):
        snap = env.pre_lists.get(id(x))
        return snap is not None and len(snap) == len(x) and all(a is b for a, b in zip(snap, x))

    def heap_unchanged():
        for o, snap in env.pre_models.values():
            for k, v in snap.items():
                cur = o.__dict__.get(k)
                if isinstance(v, list):
                    if not (isinstance(cur, list) and len(cur) == len(v) and all(_same(a, b) for a, b in zip(cur, v))):
                        return False
                elif not _same(cur, v):
                    return False
        return True

    def _same(a, b):
        if a is b:
            return True
        if isinstance(a, float) and isinstance(b, float):
            return a == b or (math.isnan(a) and math.isnan(b))
        if isinstance(a, (int, str, bool)) or a is None:
            return a == b
        return False

    def argsort_pos(pop, tt, j):
        order = np.argsort([a.cost for a in pop], axis=0)
        if _tt_is_max(tt):
            order = order[::-1]
        return order.tolist().index(j)

    def user(v, tt):
        return -v if _tt_is_max(tt) else v

    def mean(xs):
        return np.average(xs)

    def completion(fs, k):
        return getattr(fs, "_completion", list(range(len(fs))))[k]

    def completion_inv(fs, j):
        return getattr(fs, "_completion", list(range(len(fs)))).index(j)

    def view_eq(a, b):
        return a.position is b.position and _same(a.cost, b.cost) and _same(a.fitness, b.fitness)

    def greedy_outcome(o, a, b):
        return (o is b) if b.cost < a.cost else view_eq(o, a)

    def clipf(x, lo, hi):
        if isinstance(x, float) and math.isnan(x):
            return x
        return min(max(x, lo), hi)

    voc = dict(view_eq=view_eq, greedy_outcome=greedy_outcome, clipf=clipf,
               finite=lambda x: not (isinstance(x, float) and (math.isnan(x) or math.isinf(x))), sigma=sigma, sigma_inv=sigma_inv, better=better, implies=implies, fresh=fresh, unchanged=unchanged,
               heap_unchanged=heap_unchanged, argsort_pos=argsort_pos, user=user, mean=mean, imin=min, imax=max,
               isnan=lambda x: isinstance(x, float) and math.isnan(x),
               isinf=lambda x: isinstance(x, float) and math.isinf(x),
               is_max=_tt_is_max, ite=lambda c, a, b: a if c else b,
               completion=completion, completion_inv=completion_inv)
    return voc


def _eq(a, b):
    """equality of clause values at run time: two NaNs are the same value (python's == says otherwise)"""
    if isinstance(a, float) and isinstance(b, float) and math.isnan(a) and math.isnan(b):
        return True
    try:
        if isinstance(a, (float, np.floating)) and isinstance(b, (float, np.floating)) and math.isnan(float(a)) and math.isnan(float(b)):
            return True
    except (TypeError, ValueError):
        pass
    return a == b


class _EqRewriter(ast.NodeTransformer):
    """a == b -> __eq__(a, b) for single comparisons (real-mode contracts: the symbolic side has no NaN at all)"""

    def visit_Compare(self, node):
        self.generic_visit(node)
        if len(node.ops) == 1 and isinstance(node.ops[0], ast.Eq):
            return ast.copy_location(ast.Call(func=ast.Name(id="__eq__", ctx=ast.Load()), args=[node.left, node.comparators[0]], keywords=[]), node)
        return node


class _OldRewriter(ast.NodeTransformer):
    """old(e) -> e evaluated with parameter names bound to their deep copies taken at entry"""

    def __init__(self, params):
        self.params = params
        self.in_old = 0

    def visit_Call(self, node):
        if isinstance(node.func, ast.Name) and node.func.id == "old" and len(node.args) == 1:
            self.in_old += 1
            inner = self.visit(node.args[0])
            self.in_old -= 1
            return inner
        return self.generic_visit(node)

    def visit_Name(self, node):
        if self.in_old and node.id in self.params:
            return ast.copy_location(ast.Subscript(value=ast.Name(id="__old__", ctx=ast.Load()),
                                                   slice=ast.Constant(node.id), ctx=ast.Load()), node)
        return node


def eval_clause(expr: str, env: Env, extra: dict, module_globals: dict, nan_equal=False):
    tree = ast.parse(expr.strip(), mode="eval")
    tree = _OldRewriter(set(env.args)).visit(tree)
    if nan_equal:
        tree = _EqRewriter().visit(tree)
    tree = ast.fix_missing_locations(tree)
    g = dict(module_globals)
    g["__eq__"] = _eq
    g.update(make_vocabulary(env))
    g["__old__"] = env.old_args
    loc = dict(env.args)
    loc.update(extra)
    g.update(loc)
    return eval(compile(tree, "<clause>", "eval"), g)


def monitor_call(contract, func, args: dict, module_globals: dict, call=None):
    """Run the real function under the run-time form of its contract.
    Returns (status, details): status in 'pre-false' | 'ok' | 'violation'."""
    env = Env(args)
    ne = getattr(contract, "float_mode", "real") == "real"
    for lab, r in contract.labelled("requires"):
        try:
            if not eval_clause(r, env, {}, module_globals, ne):
                return "pre-false", None
        except Exception:
            return "pre-false", None
    lets = {}
    for name, e in contract.lets.items():
        lets[name] = eval_clause(e, env, lets, module_globals, ne)
    expected_exc = None
    for exc, cond in contract.raises.items():
        if eval_clause(cond, env, lets, module_globals, ne):
            expected_exc = exc
    try:
        result = call(**args) if call else func(**args)
    except Exception as ex:  # noqa
        name = type(ex).__name__
        if expected_exc == name:
            return "ok", None
        return "violation", {"clause": f"raises: unexpected {name}: {ex}", "label": f"no-{name}",
                             "expected": expected_exc}
    if expected_exc is not None:
        return "violation", {"clause": f"raises {expected_exc} iff {contract.raises[expected_exc]}",
                             "label": f"must-raise-{expected_exc}", "observed": repr(result)[:200]}
    bad = []
    for lab, e in contract.labelled("ensures"):
        try:
            ok = eval_clause(e, env, dict(lets, result=result), module_globals, ne)
        except NameError:
            continue           # vocabulary without a run-time side: the clause is not evaluable here (never a witness)
        except Exception as ex:  # a clause that cannot be evaluated on this result does not hold
            ok = False
            e = f"{e}   [evaluation error: {type(ex).__name__}: {ex}]"
        if not ok:
            bad.append({"label": lab, "clause": e, "observed": _short(result)})
    if bad:
        return "violation", bad[0] | {"all_failed": [b["label"] for b in bad]}
    return "ok", None


def _short(x):
    r = repr(x)
    return r if len(r) < 400 else r[:400] + "..."
