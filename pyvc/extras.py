"""Thorough-tier extras: canaries, seeded mutants (tools/mutants.py), Lean lemma re-check."""
from __future__ import annotations
import os, subprocess, sys
from .report import VERIF


def thorough_extras(R, pid):
    lean = os.path.join(VERIF, "lemmas", "L1.lean")
    if pid in ("C16",) and os.path.exists(lean):
        try:
            r = subprocess.run(["lake", "env", "lean", lean], capture_output=True, text=True, timeout=1200, cwd="/opt/veriftools/mathlib4")
            ok = r.returncode == 0 and "error" not in (r.stdout + r.stderr).lower()
            R.obligation("L.L1.sorted-arrangements-coincide", "lemma", "discharged" if ok else "refuted", "LEAN", "lean4", 0.0,
                         "two sorted arrangements of one finite multiset are equal (Mathlib List.Perm.eq_of_pairwise')", lean)
            if not ok:
                R.machinery.append("Lean lemma L1 does not check: " + (r.stdout + r.stderr)[-300:])
        except Exception as ex:  # noqa
            R.notes.append(f"Lean re-check skipped: {ex}")
