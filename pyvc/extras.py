"""Thorough-tier extras: canaries, seeded mutants (tools/mutants.py), Lean lemma re-check."""
from __future__ import annotations
import os, subprocess, sys
from .report import VERIF


def thorough_extras(R, pid):
    lean = os.path.join(VERIF, "lemmas", "L1.lean")
    if pid in ("C16",) and os.path.exists(lean):
        try:
            r = subprocess.run(["lake", "env", "lean", lean], capture_output=True, text=True, timeout=1200, cwd="/opt/veriftools/mathlib4")
            ok = r.returncode == 0 and "error" not in (r.stdout + r.stderr).lower()
            R.obligation("L.L1.sorted-arrangements-coincide", "lemma", "discharged" if ok else "refuted", "LEAN", "lean4", 0.0,
                         "two sorted arrangements of one finite multiset are equal (Mathlib List.Perm.eq_of_pairwise')", lean)
            if not ok:
                R.machinery.append("Lean lemma L1 does not check: " + (r.stdout + r.stderr)[-300:])
        except Exception as ex:  # noqa
            R.notes.append(f"Lean re-check skipped: {ex}")


# seeded mutants (tools/mutants.py) that each property's VC part has to catch; harmless ones must stay green
MUTANTS_FOR = {
    "C16": ["m10", "m28", "m44", "m45", "m46", "m48", "h60"], "C03": ["m10", "m11b", "m7", "m11"], "C04": ["m12", "m13", "m14", "m15"],
    "C02": ["m6", "m7", "m4"], "C01": ["m2", "m4"], "C05": ["m2"], "C06": ["m19", "m6"], "C07": ["m21", "m23"], "C08": ["m25"],
    "C10": ["m28", "m31"], "C11": ["m31"], "C12": ["m6", "m35"], "C15": ["m41"], "C17": ["m46", "m48"],
}


def mutant_selftest(R, pid):
    ids = MUTANTS_FOR.get(pid)
    if not ids:
        return
    try:
        r = subprocess.run([sys.executable, os.path.join(VERIF, "tools", "mutants.py")] + ids, capture_output=True, text=True, timeout=3000)
    except Exception as ex:  # noqa
        R.notes.append(f"mutant self-test skipped: {ex}")
        return
    ok = bad = 0
    for line in r.stdout.splitlines():
        parts = line.split(" ", 2)
        if len(parts) >= 2 and parts[0] in ids:
            if parts[1] == "ok":
                ok += 1
            else:
                bad += 1
                R.machinery.append(f"mutant self-test: {line[:200]}")
    R.extra["mutant_selftest"] = {"mutants": ids, "as_expected": ok, "unexpected": bad}


_orig_thorough = thorough_extras


def thorough_extras(R, pid):  # noqa: F811
    _orig_thorough(R, pid)
    mutant_selftest(R, pid)
