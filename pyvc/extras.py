"""Thorough-tier extras: canaries, seeded mutants (tools/mutants.py), Lean lemma re-check."""
from __future__ import annotations
import os, subprocess, sys
from .report import VERIF


def thorough_extras(R, pid):
    lean = os.path.join(VERIF, "lemmas", "L1.lean")
    if pid in ("C16",) and os.path.exists(lean):
        try:
            r = subprocess.run(["lake", "env", "lean", lean], capture_output=True, text=True, timeout=1200, cwd="/opt/veriftools/mathlib4")
            ok = r.returncode == 0 and "error" not in (r.stdout + r.stderr).lower()
            R.obligation("L.L1.sorted-arrangements-coincide", "lemma", "discharged" if ok else "refuted", "LEAN", "lean4", 0.0,
                         "two sorted arrangements of one finite multiset are equal (Mathlib List.Perm.eq_of_pairwise')", lean)
            if not ok:
                R.machinery.append("Lean lemma L1 does not check: " + (r.stdout + r.stderr)[-300:])
        except Exception as ex:  # noqa
            R.notes.append(f"Lean re-check skipped: {ex}")
    lean2 = os.path.join(VERIF, "lemmas", "L2.lean")
    if pid in ("C14",) and os.path.exists(lean2):
        try:
            r = subprocess.run(["lake", "env", "lean", lean2], capture_output=True, text=True, timeout=1800, cwd="/opt/veriftools/mathlib4")
            ok = r.returncode == 0 and "error" not in (r.stdout + r.stderr).lower()
            R.obligation("L.L2.prefix-sums-and-segments", "lemma", "discharged" if ok else "refuted", "LEAN", "lean4", 0.0,
                         "fsum recurrence, monotonicity, congruence; every position of a concatenation lies in exactly one segment", lean2)
            if not ok:
                R.machinery.append("Lean lemma L2 does not check: " + (r.stdout + r.stderr)[-300:])
        except Exception as ex:  # noqa
            R.notes.append(f"Lean re-check skipped: {ex}")


# seeded mutants (tools/mutants.py) that each property's VC part has to catch; harmless ones must stay green
MUTANTS_FOR = {
    "C16": ["m10", "m28", "m44", "m45", "m46", "m48", "h60"], "C03": ["m10", "m11b", "m7", "m11"], "C04": ["m12", "m13", "m14", "m15", "m50", "m51"],
    "C02": ["m6", "m7", "m4", "m52", "m53", "h61"], "C01": ["m2", "m4"], "C05": ["m2"], "C06": ["m19", "m6"], "C07": ["m21", "m23"], "C08": ["m25"],
    "C10": ["m28", "m31"], "C11": ["m31"], "C12": ["m6", "m35"], "C14": ["m54", "m55", "m56", "m57"], "C15": ["m41"], "C17": ["m46", "m48"],
}


def mutant_selftest(R, pid):
    ids = MUTANTS_FOR.get(pid)
    if not ids:
        return
    try:
        r = subprocess.run([sys.executable, os.path.join(VERIF, "tools", "mutants.py")] + ids, capture_output=True, text=True, timeout=3000)
    except Exception as ex:  # noqa
        R.notes.append(f"mutant self-test skipped: {ex}")
        return
    ok = bad = 0
    for line in r.stdout.splitlines():
        parts = line.split(" ", 2)
        if len(parts) >= 2 and parts[0] in ids:
            if parts[1] == "ok":
                ok += 1
            else:
                bad += 1
                R.machinery.append(f"mutant self-test: {line[:200]}")
    R.extra["mutant_selftest"] = {"mutants": ids, "as_expected": ok, "unexpected": bad}


_orig_thorough = thorough_extras


def thorough_extras(R, pid):  # noqa: F811
    _orig_thorough(R, pid)
    audit(R, pid, budget_s=5.0)
    mutant_selftest(R, pid)


def audit(R, pid, budget_s=2.0):
    """CPython cross-check of the encoder: every function whose obligations were all discharged is run on enumerated small
    inputs with its clauses evaluated by CPython.  A clause that is *proved* and *fails on a real execution* means the
    encoder, an assumed library contract or the run-time vocabulary is wrong: a machinery failure, never a verdict."""
    import contracts  # noqa: F401
    from .contract import REG
    from . import witness
    n_fn = n_exec = 0
    for q, c in sorted(REG.contracts.items()):
        if pid not in c.properties or not c.verify:
            continue
        w, stats = witness.search(c, budget_s=budget_s, max_cases=1500, seed=R.seed)
        if stats.get("ran", 0) == 0:
            continue
        n_fn += 1
        n_exec += stats["ran"]
        if w is not None and not any(v["key"].startswith("K." + q.replace("pyvolutionary.", "")) for v in R.violations):
            # A real execution of the real function violates a clause of its contract: a failing input, whatever the proof
            # status (the function may have been verified against the contract of a callee whose own obligations are now
            # open - modular proofs are only as good as every contract on the path).
            R.violation(f"K.{q.replace('pyvolutionary.', '')}",
                        f"contract of {q} fails on the real code (found by the run-time audit): {w['failed'].get('clause', '')[:200]}",
                        {"replay_kind": "witness", "witness": w, "note": "obligations of this function were discharged against its callees' "
                         "contracts; the failing input shows that a contract on the path no longer holds"})
    R.extra["audit"] = {"functions_executed": n_fn, "real_executions": n_exec,
                        "rule": "small-scope inputs by parameter type, clauses evaluated by CPython on the real function"}
