"""Result accumulation, known findings, evidence files, exit codes."""
from __future__ import annotations
import json, os, sys, time

VERIF = os.path.dirname(os.path.dirname(os.path.abspath(__file__)))


def load_known():
    p = os.path.join(VERIF, "known_findings.json")
    if not os.path.exists(p):
        return {"findings": [], "fixed": []}
    return json.load(open(p))


class Report:
    def __init__(self, pid, tier, seed):
        self.pid, self.tier, self.seed = pid, tier, seed
        self.t0 = time.time()
        self.obls = []            # dicts: name kind status backend time clause loc component
        self.violations = []      # dicts: key what replay(no path yet) payload no_input
        self.undecided = []       # dicts: what reason
        self.degraded = []        # dicts: what -> bounded
        self.bounded = {}         # component -> dict(evaluations, distinct, rule, bound, samples)
        self.assumptions = []
        self.trusted = []
        self.functions = []
        self.machinery = []       # machinery failures (exit 3)
        self.notes = []
        self.extra = {}
        self.hashes = {}

    # ---- recording -----------------------------------------------------------------------------------------
    def obligation(self, name, kind, status, component, backend="", t=0.0, clause="", loc="", tags=()):
        self.obls.append(dict(name=name, kind=kind, status=status, component=component, backend=backend,
                              time=round(t, 4), clause=clause, loc=loc, tags=list(tags)))

    def violation(self, key, what, payload=None, no_input=False):
        self.violations.append(dict(key=key, what=what, payload=payload or {}, no_input=no_input))

    def assume(self, *xs):
        for x in xs:
            if x not in self.assumptions:
                self.assumptions.append(x)

    def trust(self, *xs):
        for x in xs:
            if x not in self.trusted:
                self.trusted.append(x)

    # ---- finish --------------------------------------------------------------------------------------------------
    def finish(self, level="proof", min_obligations=1):
        known = load_known()
        kf = [k for k in known.get("findings", []) if k["property"] == self.pid]
        out_lines = []
        real = []
        hit = set()
        allk = {k["key"]: k for k in known.get("findings", [])}
        for v in self.violations:
            match = next((k for k in kf if k["key"] == v["key"]), None)
            if match is not None:
                hit.add(match["key"])
                continue
            if self.pid == "C11" and v["key"].startswith("BND.C11."):
                # pooled-mode twin of a listed finding: the same optimizer failing at the same call site with the same exception
                # (or passing the same NaN candidate) in thread / process mode is that finding observed in another mode - which
                # of an optimizer's listed failures a pooled run meets first depends on the scheduling of the workers
                parts = v["key"].split(".")
                opt_, rest = parts[2], parts[4:]
                twin = None
                if rest == ["C05"]:
                    twin = f"BND.C05.{opt_}"
                elif len(rest) >= 2:
                    twin = f"BND.C06.{opt_}." + ".".join(rest)
                if twin in allk:
                    out_lines.append(f"KNOWN-FINDING: property={self.pid} {v['key']} - pooled-mode twin of the listed finding {twin}: "
                                     f"{allk[twin]['what'][:120]}")
                    continue
            real.append(v)
        for k in kf:
            out_lines.append(f"KNOWN-FINDING: property={self.pid} {k['key']} - {k['what']}"
                             + ("" if k["key"] in hit else "   [not observed in this run]"))
        rdir = os.path.join(VERIF, "replays", self.pid)
        for v in real:
            os.makedirs(rdir, exist_ok=True)
            fname = "".join(ch if ch.isalnum() or ch in "._-" else "_" for ch in v["key"])[:150] + ".json"
            path = os.path.join(rdir, fname)
            with open(path, "w") as f:
                json.dump(dict(property=self.pid, key=v["key"], what=v["what"], no_failing_input=v["no_input"],
                               rerun=f"./check --replay replays/{self.pid}/{fname}", **v["payload"]), f, indent=1, default=str)
            out_lines.append(f"VIOLATION property={self.pid} replay={path}"
                             + (" no-failing-input-found" if v["no_input"] else ""))
        for d in self.degraded:
            out_lines.append(f"DEGRADED property={self.pid} obligation={d['what']} proved->bounded ({d.get('why', '')})")
        for u in self.undecided:
            out_lines.append(f"UNDECIDED property={self.pid} obligation={u['what']} ({u['reason']})")
        for m in self.machinery:
            out_lines.append(f"MACHINERY-FAILURE property={self.pid} {m}")

        proved = [o for o in self.obls if o["status"] == "discharged"]
        counted = [o for o in self.obls if o["status"] in ("discharged", "refuted", "undecided")]
        n_obl = len([o for o in counted if o["status"] != "undecided" or True])
        if level != "proof":
            if not self.bounded or sum(b.get("evaluations", 0) for b in self.bounded.values()) == 0:
                self.machinery.append("vacuity guard: the bounded check ran no case")
                out_lines.append(f"MACHINERY-FAILURE property={self.pid} {self.machinery[-1]}")
        elif len(proved) < min_obligations and not real and not self.machinery:
            self.machinery.append(f"vacuity guard: {len(proved)} obligations discharged, at least {min_obligations} expected")
            out_lines.append(f"MACHINERY-FAILURE property={self.pid} {self.machinery[-1]}")
        by_backend, by_component, solver_time = {}, {}, 0.0
        for o in proved:
            by_backend[o["backend"]] = by_backend.get(o["backend"], 0) + 1
            by_component[o["component"]] = by_component.get(o["component"], 0) + 1
            solver_time += o["time"]
        names = sorted({o["name"] for o in proved})
        samples = []
        seen_fn = set()
        for o in proved:
            fn = o["name"].rsplit(".", 1)[0]
            if fn in seen_fn or not o["clause"]:
                continue
            seen_fn.add(fn)
            samples.append({"obligation": o["name"], "clause": o["clause"][:300], "at": o["loc"], "backend": o["backend"],
                            "status": o["status"]})
            if len(samples) >= 25:
                break
        # obligations that were claimed as proved must all be discharged: refuted ones are violations (exit 1),
        # degraded / undecided ones are moved out of the proved count and listed.
        cov = {
            "obligations": len(proved) + len([o for o in self.obls if o["status"] == "refuted"]),
            "discharged": len(proved),
            "checker_cmd": f"./check {self.pid} --tier {self.tier}",
            "trusted_base": self.trusted,
            "samples": samples or [s_ for b in self.bounded.values() for s_ in b.get("samples", [])][:5] or [{"note": "none"}],
            "distinct_obligation_names": len(names),
            "by_backend": by_backend,
            "by_component": by_component,
            "solver_time_s": round(solver_time, 3),
            "functions_under_contract": self.functions,
            "source_sha256": self.hashes,
            "cover_inconclusive": len([o for o in self.obls if o["status"] == "cover-inconclusive"]),
            "undecided": [u["what"] for u in self.undecided],
            "degraded_to_bounded": [d["what"] for d in self.degraded],
            "bounded": self.bounded,
            "known_findings_listed": [k["key"] for k in kf],
            "explanation": "; ".join(self.notes),
        }
        cov.update(self.extra)
        if self.bounded:
            cov["evaluations"] = sum(b.get("evaluations", 0) for b in self.bounded.values())
            cov["distinct_nontrivial"] = sum(b.get("distinct_nontrivial", 0) for b in self.bounded.values())
            cov["rule"] = " | ".join(f"{k}: {b.get('rule', '')}" for k, b in self.bounded.items())
        ev = {"property_id": self.pid, "tier": self.tier if self.tier in ("quick", "thorough") else "quick",
              "seed": self.seed, "level": level, "coverage": cov, "assumptions": self.assumptions,
              "wall_s": round(time.time() - self.t0, 2), "violations": len(real)}
        os.makedirs(os.path.join(VERIF, "evidence"), exist_ok=True)
        with open(os.path.join(VERIF, "evidence", f"{self.pid}.json"), "w") as f:
            json.dump(ev, f, indent=1, default=str)
        for l in out_lines:
            print(l)
        print(f"SUMMARY property={self.pid} tier={self.tier} obligations={cov['obligations']} discharged={cov['discharged']} "
              f"violations={len(real)} undecided={len(self.undecided)} degraded={len(self.degraded)} "
              f"bounded_evals={cov.get('evaluations', 0)} wall={ev['wall_s']}s")
        if self.machinery:
            return 3
        if real:
            return 1
        if self.undecided:
            return 2
        return 0


def replay_file(path):
    sys.path.insert(0, VERIF)
    w = json.load(open(path))
    kind = w.get("replay_kind")
    if kind == "witness":
        from .witness import replay
        fails, det = replay(w["witness"])
        print(json.dumps({"still_fails": fails, "details": det}, indent=1, default=str))
        return 1 if fails else 0
    if kind == "bnd":
        sys.path.insert(0, os.environ.get("PYVC_REPO", "/repo"))
        from . import bnd
        rec = bnd._dispatch(w["case"])
        print(json.dumps({"monitors": rec.get("monitors"), "exc": rec.get("exc"), "summary": rec.get("summary"),
                          "initial_duplicates": rec.get("initial_duplicates"), "non_monotone_at": rec.get("non_monotone_at")},
                         indent=1, default=str))
        bad = bool(rec.get("monitors")) or bool(rec.get("exc")) or bool(rec.get("initial_duplicates")) or bool(rec.get("non_monotone_at"))
        return 1 if bad else 0
    if kind == "script":
        import subprocess
        r = subprocess.run([sys.executable, "-c", w["script"]], capture_output=True, text=True, timeout=600)
        print(r.stdout[-3000:], r.stderr[-2000:])
        return 1 if r.returncode != 0 else 0
    print("this replay file carries the failed obligation and the verifier output only (no failing input found):")
    print(json.dumps({k: w[k] for k in w if k in ("key", "what", "solver", "clause", "loc")}, indent=1))
    return 1
