#!/bin/sh
# Build the overlay interpreter /verif/.venv offline (python 3.12 from /venv + solver wheels).
set -e
cd "$(dirname "$0")"
if [ -x .venv/bin/python ] && .venv/bin/python -c "import z3, cvc5, pyvolutionary, jsonschema" 2>/dev/null; then
  exit 0
fi
rm -rf .venv
/venv/bin/python -m venv .venv
echo "import site; site.addsitedir('/venv/lib/python3.12/site-packages')" > .venv/lib/python3.12/site-packages/_repo_overlay.pth
PIP_NO_INDEX=1 .venv/bin/pip install -q --no-index --find-links /opt/veriftools/wheels z3-solver cvc5 icontract deal crosshair-tool hypothesis jsonschema
.venv/bin/python -c "import z3, cvc5, pyvolutionary, jsonschema"
