import sys, time, collections
sys.path.insert(0, "/verif")
from pyvc.engine import Engine
import pyvc.specfuncs, pyvc.library  # noqa
import contracts  # noqa
from pyvc.solve import discharge
e = Engine()
names = [a for a in sys.argv[1:] if not a.startswith("-")]
t0=time.time()
for n in names:
    e.verify(n)
print("paths", e.paths_run, "obligations", len(e.obligations), "undecided", e.undecided, "gen %.2fs"%(time.time()-t0))
res = discharge(e.obligations, int(10000))
agg = collections.OrderedDict()
if "--dump" in sys.argv:
    import os, re
    from pyvc.solve import to_smt2
    os.makedirs("/verif/.scratch/failing", exist_ok=True)
    for f in os.listdir("/verif/.scratch/failing"): os.unlink("/verif/.scratch/failing/"+f)
    n=0
    for k, ob in e.obligations.items():
        r = res[k]
        if not ob.expect_sat and r["status"] != "unsat":
            n+=1
            open(f"/verif/.scratch/failing/{n:03d}_{re.sub('[^A-Za-z0-9_.-]','_',ob.name.split('.')[-1])}.smt2","w").write(to_smt2(ob))
for k, ob in e.obligations.items():
    r = res[k]
    ok = (r["status"] == "sat") if ob.expect_sat else (r["status"] == "unsat")
    a = agg.setdefault((ob.name, ob.case), [0, 0, set(), 0.0])
    a[0 if ok else 1] += 1; a[2].add(r["status"]); a[3] = max(a[3], r["time"])
for (n, c), (ok, bad, sts, t) in agg.items():
    if bad or "-v" in sys.argv:
        print("FAIL" if bad else "OK  ", n, c, f"ok={ok} bad={bad}", sorted(sts), "%.1fs" % t)
print("total names", len(agg), "failing", sum(1 for v in agg.values() if v[1]))
