import sys, time
sys.path.insert(0, "/verif")
from pyvc.engine import Engine
import pyvc.specfuncs, pyvc.library  # noqa
import contracts  # noqa
from pyvc.solve import discharge
e = Engine()
names = sys.argv[1:] or ["pyvolutionary.helpers.sort_by_cost"]
t0=time.time()
for n in names:
    e.verify(n)
print("paths", e.paths_run, "obligations", len(e.obligations), "undecided", e.undecided, "gen %.2fs"%(time.time()-t0))
res = discharge(e.obligations, 10000)
for k, ob in e.obligations.items():
    r = res[k]
    ok = (r["status"] == "sat") if ob.expect_sat else (r["status"] == "unsat")
    print("OK " if ok else "FAIL", ob.name, ob.case, r["status"], "%.2f" % r["time"], r["backend"], ob.clause[:90] if not ok else "")
