"""Sidecar contracts.  These files hold clauses only - never a statement of the code under verification."""
from . import decls, helpers, models, abstract, utils  # noqa: F401
