"""Sidecar contracts.  These files hold clauses only - never a statement of the code under verification."""
from . import decls, helpers, models, abstract, utils, multitask  # noqa: F401

# ---- cross-cutting tags -------------------------------------------------------------------------------------------------------
# C06 (no internal error part-way): every function on the optimize() path is verified free of implicit exceptions (index,
# unpack, None, divisor, unsupported operand) under its precondition, so each of them serves C06.
# C09 (configuration and task untouched): every function on that path proves `heap_unchanged(...)` for the caller's objects.
from pyvc.contract import REG as _REG

_ON_PATH = ["helpers.sort_by_cost", "helpers.sort_and_trim", "helpers.best_agents", "helpers.worst_agents", "helpers.special_agents",
            "helpers.average_fitness", "helpers.calculate_fitness", "helpers.get_pool_results",
            "models.Task.get_variables", "models.Task.get_bounds", "models.Task.empty_solution", "models.Task.correct_solution",
            "models.Task.initial_solution", "models.Task.solve", "models.Population.__init__", "models.OptimizationResult.__init__",
            "abstract.OptimizationAbstract._fcn", "abstract.OptimizationAbstract._init_agent",
            "abstract.OptimizationAbstract._init_agent_seeded", "abstract.OptimizationAbstract._generate_agents",
            "abstract.OptimizationAbstract._init_population", "abstract.OptimizationAbstract.__should_stop__",
            "abstract.OptimizationAbstract.__error_check__", "abstract.OptimizationAbstract._greedy_select_agent",
            "abstract.OptimizationAbstract._greedy_select_population", "abstract.OptimizationAbstract._extend_and_trim_population",
            "abstract.OptimizationAbstract._replace_and_trim_population"]
_FRAMED = ["models.Task.get_variables", "models.Task.get_bounds", "models.Task.empty_solution", "models.Task.correct_solution",
           "models.Task.initial_solution", "models.Task.solve", "abstract.OptimizationAbstract._fcn",
           "abstract.OptimizationAbstract._init_agent", "abstract.OptimizationAbstract._init_agent_seeded",
           "abstract.OptimizationAbstract._generate_agents", "abstract.OptimizationAbstract._init_population",
           "abstract.OptimizationAbstract.__should_stop__", "abstract.OptimizationAbstract.__error_check__"]
for _q in _ON_PATH:
    _c = _REG.get("pyvolutionary." + _q)
    if _c is not None and "C06" not in _c.properties:
        _c.properties.append("C06")
for _q in _FRAMED:
    _c = _REG.get("pyvolutionary." + _q)
    if _c is not None and "C09" not in _c.properties:
        _c.properties.append("C09")
