"""Contracts for pyvolutionary/utils.py (C15 b): trends rank every generation in the task's direction."""
from pyvc.contract import contract

U = "pyvolutionary.utils."
IT_CASES = [{"iters": "None"}, {"iters": "list[int]"}]
N = "(len(result.evolution) if iters is None else len(iters))"
IT = "(t if iters is None else iters[t])"
GEN = "result.evolution[" + IT + "].agents"


def trend(name, field, ret):
    contract(U + name, params=dict(result="OptimizationResult", idx="int", iters="opt[list[int]]"), returns=ret, cases=IT_CASES,
             requires=["idx >= 0",
                       "implies(iters is not None, all(0 <= iters[t] < len(result.evolution) for t in range(len(iters))))",
                       "all(idx < len(" + GEN + ") for t in range(" + N + "))"],
             ensures=[("one-entry-per-iteration", "len(result_) == " + N if False else "len(result__) == 0" if False else
                       "len(out()) == " + N),
                      ("idx-th-best-in-the-task-direction",
                       "all(out()[t] " + ("==" if field == "cost" else "is") + " " + GEN + "[sigma(" + GEN + ", result.task_type, idx)]." + field
                       + " for t in range(" + N + "))"),
                      ("pure", "heap_unchanged()")],
             properties=["C15"])


trend("agent_trend", "cost", "list[float]")
trend("agent_position", "position", "list[list[val]]")

for name, field, ret in (("best_agent_trend", "cost", "list[float]"), ("best_agent_position", "position", "list[list[val]]")):
    contract(U + name, params=dict(result="OptimizationResult", iters="opt[list[int]]"), returns=ret, cases=IT_CASES,
             requires=["implies(iters is not None, all(0 <= iters[t] < len(result.evolution) for t in range(len(iters))))",
                       "all(len(" + GEN + ") >= 1 for t in range(" + N + "))"],
             ensures=[("one-entry-per-iteration", "len(out()) == " + N),
                      ("best-of-each-generation",
                       "all(out()[t] " + ("==" if field == "cost" else "is") + " " + GEN + "[sigma(" + GEN + ", result.task_type, 0)]." + field
                       + " for t in range(" + N + "))"),
                      ("pure", "heap_unchanged()")],
             properties=["C15"])
