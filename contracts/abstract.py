"""Contracts for pyvolutionary/abstract.py (OptimizationAbstract)."""
from pyvc.contract import contract

A = "pyvolutionary.abstract.OptimizationAbstract."

# view_eq(a, b): same observable content (position list shared by a shallow copy, equal cost and fitness)
contract(A + "_greedy_select_agent", params=dict(agent="Agent", new_agent="Agent"), returns="Agent",
         properties=["C16", "C17", "C11"],
         ensures=[
             ("challenger-iff-strictly-cheaper", "implies(new_agent.cost < agent.cost, result is new_agent)"),
             ("incumbent-kept-otherwise", "implies(not (new_agent.cost < agent.cost), fresh(result) and view_eq(result, agent))"),
             ("pure", "heap_unchanged()"),
         ])

contract("pyvolutionary.helpers.get_pool_executor", params=dict(mode="ModeSolver", n_workers="opt[int]"), returns="Executor",
         verify=False, assumed_reason="constructs a concurrent.futures executor (library object)", fresh_result=True,
         properties=[])

contract(A + "_extend_and_trim_population", params=dict(new_population="list[Agent]"), properties=["C10", "C16", "C17"],
         requires=["self._config is not None", "self._config.population_size >= 0",
                   "new_population is not self._population"],
         lets={"P0": "self._population", "n0": "len(self._population)"},
         assigns=["self._population", "content(self._population)"],
         ensures=[
             ("empty-is-noop", "implies(len(new_population) == 0, self._population is P0 and unchanged(P0))"),
             ("len", "implies(len(new_population) > 0,"
                     " len(self._population) == imin(n0 + len(new_population), self._config.population_size))"),
             # P0 now holds the concatenation old ++ new (extended in place); the population is its cheapest prefix
             ("merged", "implies(len(new_population) > 0, len(P0) == n0 + len(new_population) and"
                        " all(P0[k] is (old(P0[k]) if k < n0 else new_population[k - n0]) for k in range(len(P0))))"),
             ("cheapest-ascending", "implies(len(new_population) > 0, fresh(self._population) and"
                                    " all(self._population[k] is P0[sigma(P0, None, k)] for k in range(len(self._population))))"),
             ("objects-untouched", "heap_unchanged('self._population')"),
         ])

contract(A + "_replace_and_trim_population", params=dict(new_population="list[Agent]"), properties=["C10", "C16"],
         requires=["self._config is not None", "self._config.population_size >= 0"],
         assigns=["self._population"],
         ensures=[
             ("len", "len(self._population) == imin(len(new_population), self._config.population_size)"),
             ("cheapest-ascending", "fresh(self._population) and all(self._population[k] is"
                                    " new_population[sigma(new_population, None, k)] for k in range(len(self._population)))"),
             ("caller-list-untouched", "unchanged(new_population)"),
             ("objects-untouched", "heap_unchanged('self._population')"),
         ])

contract(A + "_greedy_select_population", params=dict(new_population="list[Agent]"), properties=["C10", "C16", "C17", "C11"],
         requires=["len(new_population) >= len(self._population)", "self._workers >= 1"],
         lets={"P0": "self._population", "n0": "len(self._population)"},
         assigns=["self._population"],
         ghost_out={"src": "lambda k: k if self._mode == ModeSolver.SERIAL else completion(executors, k)",
                    "dst": "lambda i: i if self._mode == ModeSolver.SERIAL else completion_inv(executors, i)"},
         ensures=[
             ("len", "len(self._population) == n0"),
             ("pairwise-greedy-on-sorted", "all(0 <= src(k) < n0 and greedy_outcome(self._population[k],"
              " P0[sigma(P0, None, src(k))], new_population[sigma(new_population, None, src(k))]) for k in range(n0))"),
             ("every-pair-contributes", "all(0 <= dst(i) < n0 and src(dst(i)) == i for i in range(n0))"),
             ("serial-is-elementwise", "implies(self._mode == ModeSolver.SERIAL, all(src(k) == k for k in range(n0)))"),
             ("caller-lists-untouched", "unchanged(new_population) and unchanged(P0)"),
             ("objects-untouched", "heap_unchanged('self._population')"),
         ])

# ---- evaluation chain: _fcn -> _init_agent -> _generate_agents -> _init_population ------------------------------------------
OBJ_CASES = [{"__obj__": "scalar"}, {"__obj__": "list"}]

contract(A + "_fcn", params=dict(x="list[val]"),
         returns={"case": "__obj__", "scalar": "float", "list": "list[float]", "default": "scalar"},
         cases=OBJ_CASES,
         requires=["self._task is not None", "Space(self._task, x)"],
         ensures=[("internal-sign-scalar", "implies(scalar_case(), result == (F(self._task, x) if self._task.minmax == TaskType.MIN"
                                           " else -F(self._task, x)))"),
                  ("no-objective-lost", "implies(not scalar_case(), len(result) == nobj(self._task))"),
                  ("internal-sign-list", "implies(not scalar_case(), all(result[k] == (Fk(self._task, x, k) if self._task.minmax == TaskType.MIN"
                                         " else -Fk(self._task, x, k)) for k in range(nobj(self._task))))"),
                  ("pure", "heap_unchanged()")],
         properties=["C02", "C06", "C12"])

POS_CASES = [dict(position=p, __obj__=o) for p in ("None", "list[val]", "nd[val]") for o in ("scalar", "list")]
VALID_TASK = ["self._task is not None",
              # ValidTask: weights are given exactly for list-valued objectives (a scalar objective with a weight vector
              # is rejected by pydantic when the agent is built - outside the valid tasks)
              "(self._task.objective_weights is None) == scalar_case()",
              # ... and the weight list still holds the weights the task was built with (ghost W0; C09 keeps it so)
              "weights_are(self._task)"]

contract(A + "_init_agent", params=dict(position="opt[list[val]]"), returns="Agent", cases=POS_CASES,
         requires=VALID_TASK + [
             "implies(position is not None, len(position) >= self._task.space_dimension and nanfree(self._task, position))"],
         raises={"ValueError": "(len(self._task.objective_weights) if self._task.objective_weights is not None else 1)"
                               " != (1 if scalar_case() else nobj(self._task))"},
         assigns=["rng"], fresh_result=True,
         ensures=[("fresh", "fresh(result) and fresh(result.position)"),
                  ("in-space", "Space(self._task, result.position)"),
                  ("truthful-cost-and-fitness", "Valid(self._task, result)"),
                  ("pure", "heap_unchanged()")],
         properties=["C01", "C02", "C05", "C06", "C11"])

contract(A + "_init_agent_seeded", params=dict(seed="int"), returns="Agent", cases=OBJ_CASES,
         requires=VALID_TASK + ["0 <= seed < 4294967296"],
         raises={"ValueError": "(len(self._task.objective_weights) if self._task.objective_weights is not None else 1)"
                               " != (1 if scalar_case() else nobj(self._task))"},
         assigns=["rng"], fresh_result=True,
         ensures=[("fresh", "fresh(result) and fresh(result.position)"),
                  ("in-space", "Space(self._task, result.position)"),
                  ("truthful-cost-and-fitness", "Valid(self._task, result)"),
                  ("own-stream", "seeded_with(seed)"),
                  ("pure", "heap_unchanged()")],
         properties=["C11", "C01"])

contract(A + "_generate_agents", params=dict(n_agents="int"), returns="list[Agent]", cases=OBJ_CASES,
         requires=VALID_TASK + ["n_agents >= 0", "self._workers >= 1"],
         raises={"ValueError": "n_agents > 0 and (len(self._task.objective_weights) if self._task.objective_weights is not None else 1)"
                               " != (1 if scalar_case() else nobj(self._task))"},
         assigns=["rng"],
         ensures=[("none-lost-none-duplicated", "len(result) == n_agents"),
                  ("workers-do-not-replay-one-another", "own_streams()"),
                  ("fresh", "fresh(result) and all(fresh(result[k]) for k in range(n_agents))"),
                  ("all-in-space", "all(Space(self._task, result[k].position) for k in range(n_agents))"),
                  ("all-truthful", "all(Valid(self._task, result[k]) for k in range(n_agents))"),
                  ("pure", "heap_unchanged()")],
         properties=["C01", "C02", "C10", "C11"])

contract(A + "_init_population", cases=OBJ_CASES,
         requires=VALID_TASK + ["self._config is not None", "self._config.population_size >= 0", "self._workers >= 1"],
         raises={"ValueError": "self._config.population_size > 0 and (len(self._task.objective_weights) if"
                               " self._task.objective_weights is not None else 1) != (1 if scalar_case() else nobj(self._task))"},
         assigns=["self._population", "rng"],
         ensures=[("size", "len(self._population) == self._config.population_size"),
                  ("all-in-space", "all(Space(self._task, self._population[k].position) for k in range(len(self._population)))"),
                  ("all-truthful", "all(Valid(self._task, self._population[k]) for k in range(len(self._population)))"),
                  ("born-in-this-run", "fresh(self._population) and all(fresh(self._population[k]) for k in range(len(self._population)))"),
                  ("pure", "heap_unchanged('self._population')")],
         properties=["C01", "C02", "C10", "C08"])

# ---- stop rule (C04) ----------------------------------------------------------------------------------------------------------
# Stop(cfg, k, r): taken from the statement of C04 - the cycle count reached max_cycles, or the convergence rate is <=
# fitness_error, or the last `patience` changes of the rate are all decreases smaller than min_delta (a change is the
# difference of two consecutive rates, so there are k-1 of them after k cycles).
CFG = "self._config"
ES = "self._config.early_stopping"
STOP = ("({k} >= " + CFG + ".max_cycles"
        " or (" + CFG + ".fitness_error is not None and {r}[{k} - 1] <= " + CFG + ".fitness_error)"
        " or (" + ES + " is not None and {k} - 1 >= " + ES + ".patience and"
        " all({r}[j] - {r}[j - 1] < 0 and abs({r}[j] - {r}[j - 1]) < " + ES + ".min_delta"
        " for j in range({k} - " + ES + ".patience, {k}))))")
# EarlyStopping.validate_patience: a patience that is given is >= 1 (None is accepted and means the default)
VALID_CFG = [CFG + " is not None",
             "implies(" + ES + " is not None, implies(" + ES + ".patience is not None, " + ES + ".patience >= 1))"]
# book-keeping invariant after k completed checks: one rate and one difference per cycle; rates are absolute values;
# the first difference is taken against 0
BOOK = ["len(self._errors) == {k}", "len(self._error_diffs) == {k}",
        "all(self._errors[j] >= 0 for j in range({k}))",
        "all(self._error_diffs[j] == self._errors[j] - (self._errors[j - 1] if j >= 1 else 0) for j in range({k}))",
        "self._errors is not self._error_diffs", "self._population is not self._errors",
        "self._population is not self._error_diffs"]


def book(k):
    return [b.format(k=k) for b in BOOK]


contract(A + "__should_stop__", params=dict(current_error="float"), returns="bool",
         requires=VALID_CFG + ["self._current_cycle >= 1"] + book("self._current_cycle")
         + ["current_error == self._errors[self._current_cycle - 1]",
            # the first difference is taken against 0 (ground instance of the book-keeping clause, stated for the solver)
            "self._error_diffs[0] == self._errors[0] and self._errors[0] >= 0"],
         ensures=[("stops-exactly-when-a-criterion-holds",
                   "result == Stop(self, self._current_cycle, self._errors)"),
                  ("pure", "heap_unchanged()")],
         properties=["C04", "C08"])

contract(A + "__error_check__", returns="tuple[float, float, bool]",
         requires=VALID_CFG + ["self._current_cycle >= 1", "len(self._population) >= 1"] + book("(self._current_cycle - 1)"),
         lets={"E0": "self._errors", "D0": "self._error_diffs", "k": "self._current_cycle"},
         assigns=["content(self._errors)", "content(self._error_diffs)"],
         ensures=[("one-rate-per-cycle", "self._errors is E0 and self._error_diffs is D0 and len(E0) == k and len(D0) == k"),
                  ("rate-is-abs-1-minus-mean-fitness",
                   "E0[k - 1] == abs(1 - mean([a.fitness for a in self._population])) and result[0] == E0[k - 1]"),
                  ("earlier-rates-kept", "all(E0[j] == old(E0[j]) and D0[j] == old(D0[j]) for j in range(k - 1))"),
                  ("stop-decision", "result[2] == Stop(self, k, E0)"),
                  ] + [("book-" + str(i), b) for i, b in enumerate(book("k"))] + [
                  ("pure", "heap_unchanged()")],
         properties=["C04", "C08"])

# ---- hooks (abstract contracts; every optimizer class has to refine them - EFF / LEN / BND obligations) -----------------------
# PopOK(self): every agent of the population is a valid agent of this run's task and the size clause of C10 holds.
N = "self._config.population_size"
POP_OK = ["all(Space(self._task, a.position) for a in self._population)",
          "all(Valid(self._task, a) for a in self._population)",
          "1 <= len(self._population) <= " + N,
          "implies(fixed_size(self), len(self._population) == " + N + ")",
          "self._population is not self._errors and self._population is not self._error_diffs"]
HOOK_FRAME = [("population-list-is-own", "fresh(self._population) or self._population is old(self._population)"),
              ("only-the-population-changes", "heap_unchanged('self._population')"),
              ("other-lists-untouched", "lists_unchanged_except(old(self._population))")]
HOOK_REQ = VALID_TASK + ["self._config is not None"]

contract(A + "before_initialization", requires=HOOK_REQ, ensures=[("frame", "heap_unchanged()"), ("lists", "lists_unchanged_except()")],
         verify=False, assumed_reason="abstract hook: refinement by every optimizer class is an EFF obligation (FRAME-*)",
         cases=OBJ_CASES)
contract(A + "after_initialization", requires=HOOK_REQ + POP_OK, assigns=["content(self._population)", "self._population", "rng"],
         ensures=[("pop-" + str(i), c) for i, c in enumerate(POP_OK)] + HOOK_FRAME, cases=OBJ_CASES,
         verify=False, assumed_reason="abstract hook (FRAME-*, PROV, LEN obligations per class)")
contract(A + "optimization_step", requires=HOOK_REQ + POP_OK, assigns=["content(self._population)", "self._population", "rng"],
         ensures=[("pop-" + str(i), c) for i, c in enumerate(POP_OK)] + HOOK_FRAME, cases=OBJ_CASES,
         verify=False, assumed_reason="abstract hook (FRAME-*, PROV, LEN obligations per class)")

# ---- optimize ---------------------------------------------------------------------------------------------------------------
WMISMATCH = ("(len(task.objective_weights) if task.objective_weights is not None else 1)"
             " != (1 if scalar_case() else nobj(task))")
GEN_OK = ("(all(Space(task, a.position) for a in {g}.agents)"
          " and all(Reported(task, a) for a in {g}.agents)"
          " and 1 <= len({g}.agents) <= " + N +
          " and implies(fixed_size(self), len({g}.agents) == " + N + ")"
          " and {g}.agents is not self._errors and {g}.agents is not self._error_diffs)")
# a recorded generation owns its list: it is never the optimizer's live population list (pydantic copies the list)
GEN_OWN = "{g}.agents is not self._population"
CC = "self._current_cycle"
SELF_RUN_FIELDS = ["_population", "_best_agent", "_worst_agent", "_current_cycle", "_errors", "_error_diffs", "_mode", "_workers", "_task"]

contract(A + "optimize", params=dict(task="Task", mode="opt[str]", workers="opt[int]"), returns="OptimizationResult",
         cases=OBJ_CASES, locals=dict(evolution="list[Population]"), hints=["eager-inst"],
         requires=[
             "(task.objective_weights is None) == scalar_case()",                       # ValidTask (see _init_agent)
             "weights_are(task)",
             "implies(task.seed is not None, 0 <= task.seed < 4294967296)",             # the documented numpy seed range
             "implies(self._config is not None, " + N + " >= 1 and self._config.max_cycles >= 1 and "
             + VALID_CFG[1][:-1] + "))",
             "self._workers >= 1",
         ],
         raises={"ValueError": "self._config is None or (workers is not None and workers <= 0) or"
                               " (mode is not None and mode not in ModeSolver) or " + WMISMATCH},
         loop_assigns={"loop1": ["content(self._population)", "self._population", "self._best_agent", "self._worst_agent",
                                 "self._current_cycle", "content(self._errors)", "content(self._error_diffs)"]},
         invariants={"loop1": [
             ("config-task-kept", "self._config is old(self._config) and self._task is task and self._workers >= 1"),
             ("cycle-counter", CC + " >= 1 and len(evolution) == " + CC),
         ] + [("book-" + str(i), b) for i, b in enumerate(book("(" + CC + " - 1)"))] + [
             ("no-earlier-stop", "all(not Stop(self, k, self._errors) for k in range(1, " + CC + "))"),
             ("within-budget", CC + " <= self._config.max_cycles"),
             ("weights-kept", "weights_are(task)"),
             ("rates-are-abs-1-minus-mean-fitness",
              "all(self._errors[k - 1] == abs(1 - mean([a.fitness for a in evolution[k].agents])) for k in range(1, " + CC + "))"),
             ("history-ok", "all(" + GEN_OK.format(g="evolution[g]") + " for g in range(" + CC + "))"),
             ("history-owns-its-lists", "all(" + GEN_OWN.format(g="evolution[g]") + " for g in range(" + CC + "))"),
             ("evolution-is-local", "evolution is not self._errors and evolution is not self._error_diffs"),
             ("population-list-own", "self._population is old(self._population) or fresh(self._population)"),
             ("caller-lists-untouched", "lists_unchanged_except(old(self._population))"),
         ] + [("pop-" + str(i), c) for i, c in enumerate(POP_OK)]},
         decreases={"loop1": "self._config.max_cycles - " + CC},
         ghost_out={"best_index": "lambda z: sigma(self._population, None, 0)"},
         ensures=[
             ("seeded-with-the-task-seed-before-any-draw", "seeded_with(task.seed)"),
             ("one-generation-and-rate-per-cycle", "len(result.evolution) == len(result.rates) + 1 and"
                                                   " 1 <= len(result.rates) <= self._config.max_cycles"),
             ("stops-when-a-criterion-holds", "Stop(self, len(result.rates), result.rates)"),
             ("never-earlier", "all(not Stop(self, k, result.rates) for k in range(1, len(result.rates)))"),
             ("rates", "all(result.rates[k - 1] == abs(1 - mean([a.fitness for a in result.evolution[k].agents]))"
                       " for k in range(1, len(result.rates) + 1))"),
             ("every-generation-ok", "all(" + GEN_OK.format(g="result.evolution[g]") + " for g in range(len(result.evolution)))"),
             ("best-is-a-member-of-the-last-generation",
              "result.best_solution is not None and 0 <= best_index(0) < len(result.evolution[len(result.rates)].agents) and"
              " result.best_solution.position is result.evolution[len(result.rates)].agents[best_index(0)].position and"
              " result.best_solution.cost == result.evolution[len(result.rates)].agents[best_index(0)].cost"),
             ("best-is-optimal-in-the-task-direction",
              "all(not better(task.minmax, a.cost, result.best_solution.cost) for a in result.evolution[len(result.rates)].agents)"),
             # C09: nothing but the optimizer's own run state is written: the configuration and the task (every field of
             # every object that existed at entry, every list that existed at entry) are as they were
             ("caller-objects-untouched", "heap_unchanged(" + ", ".join("'self.%s'" % f_ for f_ in SELF_RUN_FIELDS) + ")"),
             ("caller-lists-untouched", "lists_unchanged_except(old(self._population))"),
         ],
         raises_ensures={"ValueError": ["heap_unchanged(" + ", ".join("'self.%s'" % f_ for f_ in SELF_RUN_FIELDS) + ")",
                                        # a rejected call leaves the instance usable: the object invariant that the next call
                                        # requires (a positive worker count) survives the ValueError exit too (C06)
                                        "self._workers >= 1"]},
         properties=["C01", "C02", "C03", "C04", "C06", "C07", "C08", "C09", "C10", "C15", "C18"])

# ---- regrouping (C10): groups are copies of consecutive slices, plus the residual group of the last N mod g agents ----------------
RES = "(self._config.population_size % n_groups)"
contract(A + "_generate_group_population", params=dict(n_groups="int", n_agents="int", with_residual="opt[bool]"),
         returns="list[list[Agent]]", locals=dict(groups="list[list[Agent]]"),
         cases=[{"with_residual": "bool"}],
         requires=["self._config is not None", "n_groups >= 1", "n_agents >= 0", "n_groups * n_agents <= len(self._population)",
                   RES + " <= len(self._population)"],
         invariants={"loop1": [
             "len(groups) == loop1_i",
             "groups is not self._population",
             "all(len(groups[g]) == n_agents for g in range(loop1_i))",
             "all(all(view_eq(groups[g][t], self._population[g * n_agents + t]) for t in range(n_agents)) for g in range(loop1_i))",
             "all(groups[g] is not self._population and groups[g] is not groups for g in range(loop1_i))",
         ]},
         ensures=[
             ("number-of-groups", "len(result) == n_groups + (1 if (with_residual and " + RES + " != 0) else 0)"),
             ("full-groups", "all(len(result[g]) == n_agents for g in range(n_groups))"),
             ("copies-of-consecutive-slices",
              "all(all(view_eq(result[g][t], self._population[g * n_agents + t]) for t in range(n_agents)) for g in range(n_groups))"),
             ("residual-group-is-the-tail", "implies(with_residual and " + RES + " != 0, len(result[n_groups]) == " + RES + " and"
              " all(view_eq(result[n_groups][t], self._population[len(self._population) - " + RES + " + t]) for t in range(" + RES + ")))"),
             ("population-untouched", "unchanged(self._population) and heap_unchanged()"),
         ],
         properties=["C10"])

# ---- overrides of the greedy selection in optimizer classes (behavioural subtyping: they must stay elitist, C17; the one that
# keeps the base rule is held to the full base contract, C16) --------------------------------------------------------------------
ELITIST_SELECT = [("challenger-only-if-strictly-cheaper", "implies(result is new_agent and new_agent is not agent, new_agent.cost < agent.cost)"),
                  ("otherwise-the-incumbent", "result is new_agent or result is agent or (fresh(result) and view_eq(result, agent))"),
                  ("pure", "heap_unchanged()")]
contract("pyvolutionary.bee_colony.bee_colony_optimization.BeeColonyOptimization._greedy_select_agent",
         params=dict(agent="Bee", new_agent="Bee"), returns="Bee", properties=["C16", "C17"],
         ensures=[("challenger-iff-strictly-cheaper", "implies(new_agent.cost < agent.cost, result is new_agent)"),
                  ("incumbent-kept-otherwise", "implies(not (new_agent.cost < agent.cost), fresh(result) and view_eq(result, agent))")]
         + ELITIST_SELECT)
contract("pyvolutionary.bat.bat_optimization.BatOptimization._greedy_select_agent",
         params=dict(agent="Bat", new_agent="Bat"), returns="Bat", properties=["C17"], assigns=["rng"],
         ensures=ELITIST_SELECT)
