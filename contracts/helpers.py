"""Contracts for pyvolutionary/helpers.py.

Spec vocabulary: sigma(pop, tt, k) is the index in `pop` of the k-th agent in stable cost order (ascending; descending
when tt is TaskType.MAX) - the unique stable sorting permutation; sigma_inv is its inverse.  better(tt, a, b): a < b for
min, a > b for max.  All helper contracts are phrased against this one spec function, and the statements of C16 / C03
(membership, distinct indices, order, optimality, caller's list untouched) are consequences proved per function.
Contracts are total wherever the python operation is total (a slice never raises).
"""
from pyvc.contract import contract, fields

H = "pyvolutionary.helpers."
POP = dict(population="list[Agent]", task_type="opt[TaskType]")
PURE = [("caller-list-untouched", "unchanged(population)"), ("objects-untouched", "heap_unchanged()")]
PROPS = ["C16"]

fields("Future", value="Agent")

contract(H + "sort_by_cost", params=POP, returns="list[Agent]", properties=["C16", "C03", "C12", "C15"],
         ensures=[
             ("fresh", "fresh(result)"),
             ("len", "len(result) == len(population)"),
             ("sigma", "all(result[k] is population[sigma(population, task_type, k)] for k in range(len(result)))"),
             ("ordered", "all(not better(task_type, result[k + 1].cost, result[k].cost) for k in range(len(result) - 1))"),
         ] + PURE)

contract(H + "sort_and_trim", params=dict(population="list[Agent]", population_size="int"), returns="list[Agent]",
         requires=["population_size >= 0"], properties=["C16", "C10", "C17"],
         ensures=[
             ("fresh", "fresh(result)"),
             ("len", "len(result) == imin(population_size, len(population))"),
             ("sigma", "all(result[k] is population[sigma(population, None, k)] for k in range(len(result)))"),
             ("ascending", "all(result[k].cost <= result[k + 1].cost for k in range(len(result) - 1))"),
             ("keeps-cheapest", "all(implies(sigma_inv(population, None, j) >= len(result),"
                                " all(result[k].cost <= population[j].cost for k in range(len(result))))"
                                " for j in range(len(population)))"),
         ] + PURE)

BEST_ENS = [
    ("fresh", "fresh(result)"),
    ("len", "len(result) == imin(n_best, len(population))"),
    ("sigma", "all(result[k] is population[sigma(population, task_type, k)] for k in range(len(result)))"),
    # statement of C16: members at pairwise distinct indices, best first, none of the omitted agents strictly better
    ("members-distinct", "all(sigma(population, task_type, k1) != sigma(population, task_type, k2)"
                         " for k1 in range(len(result)) for k2 in range(len(result)) if k1 != k2)"),
    ("best-first", "all(not better(task_type, result[k + 1].cost, result[k].cost) for k in range(len(result) - 1))"),
    ("optimal", "all(implies(sigma_inv(population, task_type, j) >= len(result),"
                " all(not better(task_type, population[j].cost, result[k].cost) for k in range(len(result))))"
                " for j in range(len(population)))"),
] + PURE

contract(H + "best_agents", params=dict(POP, n_best="int"), returns="list[Agent]", requires=["n_best >= 0"],
         properties=["C16", "C03"], ensures=BEST_ENS)

WORST_ENS = [
    ("fresh", "fresh(result)"),
    ("len", "len(result) == n_worst"),
    ("sigma", "all(result[k] is population[sigma(population, task_type, len(population) - len(result) + k)]"
              " for k in range(len(result)))"),
    ("worst-last", "all(not better(task_type, result[k + 1].cost, result[k].cost) for k in range(len(result) - 1))"),
    ("optimal", "all(implies(sigma_inv(population, task_type, j) < len(population) - len(result),"
                " all(not better(task_type, result[k].cost, population[j].cost) for k in range(len(result))))"
                " for j in range(len(population)))"),
] + PURE

contract(H + "worst_agents", params=dict(POP, n_worst="int"), returns="list[Agent]", requires=["0 <= n_worst <= len(population)"],
         properties=["C16", "C03"], ensures=WORST_ENS)

contract(H + "best_agent", params=POP, returns="Agent", requires=["len(population) >= 1"], properties=PROPS,
         ensures=[
             ("member", "result is population[sigma(population, task_type, 0)]"),
             ("optimal", "all(not better(task_type, population[j].cost, result.cost) for j in range(len(population)))"),
         ] + PURE)

contract(H + "worst_agent", params=POP, returns="Agent", requires=["len(population) >= 1"], properties=PROPS,
         ensures=[
             ("member", "result is population[sigma(population, task_type, len(population) - 1)]"),
             ("optimal", "all(not better(task_type, result.cost, population[j].cost) for j in range(len(population)))"),
         ] + PURE)

contract(H + "special_agents", params=dict(POP, n_best="opt[int]", n_worst="opt[int]"),
         returns="tuple[list[Agent], list[Agent]]",
         requires=["implies(n_best is not None, n_best >= 0)",
                   "implies(n_worst is not None, 0 <= n_worst <= len(population))"],
         raises={"ValueError": "n_best is None and n_worst is None"}, properties=["C16", "C03"],
         ensures=[
             ("fresh", "fresh(result)"),
             ("best-len", "len(result[0]) == (imin(n_best, len(population)) if n_best is not None else 0)"),
             ("worst-len", "len(result[1]) == (n_worst if n_worst is not None else 0)"),
             ("best", "all(result[0][k] is population[sigma(population, task_type, k)] for k in range(len(result[0])))"),
             ("worst", "all(result[1][k] is population[sigma(population, task_type, len(population) - len(result[1]) + k)]"
                       " for k in range(len(result[1])))"),
         ] + PURE)

# ---- index variants (np.argsort: a sorting permutation without stability) ------------------------------------------------
IDX_COMMON = [
    ("in-range", "all(0 <= result[k] < len(population) for k in range(len(result)))"),
    ("distinct", "all(result[k1] != result[k2] for k1 in range(len(result)) for k2 in range(len(result)) if k1 != k2)"),
    ("ordered", "all(not better(task_type, population[result[k + 1]].cost, population[result[k]].cost)"
                " for k in range(len(result) - 1))"),
] + PURE

contract(H + "sort_by_cost_indexes", params=POP, returns="list[int]", properties=["C16"],
         ensures=[("len", "len(result) == len(population)"),
                  ("same-costs-as-sort", "all(population[result[k]].cost == population[sigma(population, task_type, k)].cost"
                                         " for k in range(len(result)))"),
                  ("onto", "all(0 <= argsort_pos(population, task_type, j) < len(result) and"
                           " result[argsort_pos(population, task_type, j)] == j for j in range(len(population)))"),
                  ] + IDX_COMMON)

contract(H + "best_agents_indexes", params=dict(POP, n_best="int"), returns="list[int]", requires=["n_best >= 0"],
         properties=["C16"],
         ensures=[("len", "len(result) == imin(n_best, len(population))"),
                  ("same-costs-as-best_agents",
                   "all(population[result[k]].cost == population[sigma(population, task_type, k)].cost"
                   " for k in range(len(result)))"),
                  ] + IDX_COMMON)

contract(H + "worst_agents_indexes", params=dict(POP, n_worst="int"), returns="list[int]", requires=["0 <= n_worst <= len(population)"],
         properties=["C16"],
         ensures=[("len", "len(result) == n_worst"),
                  ("same-costs-as-worst_agents",
                   "all(population[result[k]].cost =="
                   " population[sigma(population, task_type, len(population) - len(result) + k)].cost"
                   " for k in range(len(result)))"),
                  ] + IDX_COMMON)

contract(H + "best_agent_index", params=POP, returns="int", requires=["len(population) >= 1"], properties=["C16"],
         ensures=[("in-range", "0 <= result < len(population)"),
                  ("optimal", "all(not better(task_type, population[j].cost, population[result].cost)"
                              " for j in range(len(population)))")] + PURE)

contract(H + "worst_agent_index", params=POP, returns="int", requires=["len(population) >= 1"], properties=["C16"],
         ensures=[("in-range", "0 <= result < len(population)"),
                  ("optimal", "all(not better(task_type, population[result].cost, population[j].cost)"
                              " for j in range(len(population)))")] + PURE)

# ---- fitness -------------------------------------------------------------------------------------------------------------
contract(H + "average_fitness", params=dict(population="list[Agent]"), returns="float", requires=["len(population) >= 1"],
         properties=["C04"],
         ensures=[("mean", "result == mean([a.fitness for a in population])")] + PURE)

contract(H + "calculate_fitness", params=dict(value="float", task_type="TaskType"), returns="float", float_mode="fp",
         requires=["not isnan(value)"], properties=["C02"],
         ensures=[("documented-function",
                   "result == ((1 / (user(value, task_type) + 1)) if user(value, task_type) >= 0 else (1 + abs(user(value, task_type))))"),
                  ])

# ---- pools ---------------------------------------------------------------------------------------------------------------
contract(H + "get_pool_results", params=dict(executors="list[Future]"), returns="list[Agent]", properties=["C11", "C10"],
         locals=dict(res="list[Agent]"),
         invariants={"loop1": ["len(res) == loop1_i",
                               "all(res[j] is loop1_seq[j].value for j in range(loop1_i))",
                               "res is not loop1_seq and res is not executors",
                               ]},
         ensures=[("fresh", "fresh(result)"),
                  ("none-lost-none-duplicated", "len(result) == len(executors)"),
                  ("permutation-of-results",
                   "all(result[k] is executors[completion(executors, k)].value for k in range(len(result)))"),
                  ("every-future-contributes",
                   "all(result[completion_inv(executors, j)] is executors[j].value for j in range(len(executors)))"),
                  ("objects-untouched", "heap_unchanged()")])

contract(H + "find_centers", params=dict(pop_groups="list[list[Agent]]"), returns="list[Agent]",
         requires=["all(len(g) >= 1 for g in pop_groups)"], properties=["C10"],
         ensures=[("len", "len(result) == len(pop_groups)"),
                  ("copies-of-bests", "all(result[i].cost == pop_groups[i][sigma(pop_groups[i], None, 0)].cost and"
                                      " result[i].position is pop_groups[i][sigma(pop_groups[i], None, 0)].position"
                                      " for i in range(len(result)))"),
                  ("objects-untouched", "heap_unchanged()")])
