"""Field declarations (sorts of the heap maps) for the classes the kernel touches."""
from pyvc.contract import fields

fields("Agent", position="list[val]", cost="float", fitness="float")
fields("EarlyStopping", patience="opt[int]", min_delta="opt[float]")
fields("BaseOptimizationConfig", population_size="int", fitness_error="opt[float]", max_cycles="int",
       early_stopping="opt[EarlyStopping]")


def _seed_type():
    """the sort of Task.seed is read from the real annotation (`float | None` on the pinned tree, `int | None` once fixed)"""
    import ast
    from pyvc.source import Source
    ci = Source().classes.get("pyvolutionary.models.Task")
    for node in (ci.node.body if ci else []):
        if isinstance(node, ast.AnnAssign) and getattr(node.target, "id", "") == "seed":
            names = {n.id for n in ast.walk(node.annotation) if isinstance(n, ast.Name)}
            if "float" in names:
                return "opt[float]"
            if "int" in names:
                return "opt[int]"
    return "opt[float]"


fields("Task", minmax="TaskType", objective_weights="opt[list[float]]", seed=_seed_type(), variables="list[Variable]",
       space_dimension="int", data="opt[any]", _EPS="float")
fields("OptimizationAbstract", _config="opt[BaseOptimizationConfig]", _task="opt[Task]", _population="list[Agent]",
       _best_agent="opt[Agent]", _worst_agent="opt[Agent]", _current_cycle="int", _errors="list[float]",
       _error_diffs="list[float]", _mode="ModeSolver", _workers="int", _debug="bool")
fields("Population", agents="list[Agent]")
fields("OptimizationResult", evolution="list[Population]", rates="list[float]", best_solution="opt[Agent]",
       task_type="TaskType")
fields("ContinuousVariable", lower_bound="float", upper_bound="float")
fields("DiscreteVariable", choices="list[any]")
fields("BinaryVariable", n_vars="int")

# Task.space_dimension is the sum of the variables' sizes (Task.__init__; checked by the C14 law campaign): never negative
from pyvc.state import FIELD_INVARIANTS
FIELD_INVARIANTS["space_dimension"] = lambda z: z >= 0
fields("MultiVariable", _children="list[Variable]")
fields("Bee", trials="int")
fields("Bat", loudness="float", pulse_rate="float", velocity="list[val]")
fields("ContinuousMultiVariable", lower_bounds="list[float]", upper_bounds="list[float]")
fields("MultiObjectiveVariable", lower_bounds="list[float]", upper_bounds="list[float]")
fields("Variable", name="str")
fields("PermutationVariable", items="list[any]")
