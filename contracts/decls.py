"""Field declarations (sorts of the heap maps) for the classes the kernel touches."""
from pyvc.contract import fields

fields("Agent", position="list[val]", cost="float", fitness="float")
