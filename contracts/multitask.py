"""Contracts for pyvolutionary/multitask.py: the expansion of `modes` to one mode per (algorithm, task) pair (C20)."""
from pyvc.contract import contract, fields

fields("Multitask", _n_algorithms="int", _m_tasks="int")
MT = "pyvolutionary.multitask.Multitask."
N, Mm = "self._n_algorithms", "self._m_tasks"
SEL = ("(values[0] if len(values) == 1 else (values[i] if len(values) == " + N + " else (values[j] if len(values) == " + Mm +
       " else values[i * " + Mm + " + j])))")
contract(MT + "__check_input__", params=dict(name="str", kind="str", values="opt[list[str]]"), returns="opt[list[list[str]]]",
         cases=[{"values": "None"}, {"values": "list[str]"}], hints=["tuple:values"],
         requires=[N + " >= 1", Mm + " >= 1"],
         raises={"ValueError": "values is not None and len(values) != 1 and len(values) != " + N + " and len(values) != " + Mm +
                               " and len(values) != " + N + " * " + Mm},
         ensures=[("none-stays-none", "(result is None) == (values is None)"),
                  ("one-row-per-algorithm", "implies(values is not None, len(result) == " + N + ")"),
                  ("one-entry-per-task", "implies(values is not None, all(len(result[i]) == " + Mm + " for i in range(" + N + ")))"),
                  # documented precedence: a single value, then per algorithm, then per task, then per pair (algorithm-major)
                  ("designated-value", "implies(values is not None, all(all(result[i][j] == " + SEL + " for j in range(" + Mm + "))"
                                       " for i in range(" + N + ")))"),
                  ("pure", "heap_unchanged()")],
         properties=["C20"])

fields("Multitask", _modes="opt[list[list[str]]]")
contract(MT + "__get_mode__", params=dict(id_optimizer="int", id_prob="int"), returns="ModeSolver",
         requires=["implies(self._modes is not None, 0 <= id_optimizer < len(self._modes) and 0 <= id_prob < len(self._modes[id_optimizer]))"],
         raises={"ValueError": "self._modes is not None and self._modes[id_optimizer][id_prob] not in ModeSolver"},
         ensures=[("serial-by-default", "implies(self._modes is None, result == ModeSolver.SERIAL)"),
                  ("the-designated-mode", "implies(self._modes is not None, result.value == self._modes[id_optimizer][id_prob])"),
                  ("pure", "heap_unchanged()")],
         properties=["C20"])
