"""Contracts for pyvolutionary/models.py.

The abstract Variable contract (refined by the 7 classes, C13) is stated with the uninterpreted Dom(var, value) and
Corr(var, value); Task methods are verified against it (clients never see a Variable body)."""
from pyvc.contract import contract

M = "pyvolutionary.models."

# ---- Task (abstract view used by OptimizationAbstract; bodies verified below) ---------------------------------------------
DIM = "self.space_dimension"
contract(M + "Variable.correct", params=dict(value="val"), returns="val", verify=False,
         assumed_reason="abstract method; refined by ContinuousVariable / DiscreteVariable (VCs above, C13) and PermutationVariable (bounded law campaign)",
         ensures=[("function-of-the-value", "result is Corr(self, value)"),
                  ("into-the-domain", "implies(not isnanv(value), Dom(self, result) and not isnanv(result))"),
                  ("members-unchanged", "implies(Dom(self, value), result is value)")],
         allocates=False, properties=[])

# ---- abstract structure of a variable (refined by the seven classes: var_wf is their object invariant, C13 law campaign) -------
VAR_ABS = "abstract method of Variable; the seven classes refine it (bodies are one-liners over the object invariant var_wf)"
contract(M + "Variable.size", returns="int", verify=False, assumed_reason=VAR_ABS, allocates=False,
         ensures=[("size", "result == vsize(self) and result >= 1")], properties=[])
contract(M + "Variable.has_children", returns="bool", verify=False, assumed_reason=VAR_ABS, allocates=False,
         ensures=[("kids", "result == kids(self)")], properties=[])
contract(M + "Variable.get", returns={"when": "kids(self)", "then": "list[Variable]", "else": "Variable"}, verify=False,
         assumed_reason=VAR_ABS, allocates=False,
         ensures_when={"then": [("children", "len(result) == vsize(self) and all(result[r] is child(self, r) for r in range(vsize(self)))")],
                       "else": [("itself", "result is self")]},
         ensures=[("pure", "heap_unchanged()")], properties=[])
contract(M + "Variable.randomize", returns={"when": "kids(self)", "then": "list[val]", "else": "val"}, verify=False,
         assumed_reason=VAR_ABS + "; members of the domain by the randomize contracts of the concrete classes (C13)", assigns=["rng"],
         ensures_when={"then": [("one-per-child", "fresh(result) and len(result) == vsize(self) and all(Dom(child(self, r), result[r]) and"
                                                  " not isnanv(result[r]) for r in range(vsize(self)))")],
                       "else": [("member", "Dom(self, result) and not isnanv(result)")]},
         ensures=[("pure", "heap_unchanged()")], properties=[])

contract(M + "Variable.get_bounds", returns={"when": "kids(self)", "then": "tuple[list[val], list[val]]", "else": "tuple[val, val]"},
         verify=False, assumed_reason=VAR_ABS, allocates=True,
         ensures_when={"then": [("one-pair-per-coordinate", "len(result[0]) == vsize(self) and len(result[1]) == vsize(self) and"
                                 " all(result[0][r] is cbound_lo(self, r) and result[1][r] is cbound_hi(self, r) for r in range(vsize(self)))")],
                       "else": [("own-pair", "result[0] is cbound_lo(self, 0) and result[1] is cbound_hi(self, 0)")]},
         ensures=[("pure", "heap_unchanged()")], properties=[])

HAS_NEG_DEF = ("implies(self.objective_weights is not None, has_negative(self.objective_weights) == "
               "any(self.objective_weights[i] < 0 for i in range(len(self.objective_weights))))")
contract(M + "Task.validate_objective_weights", returns="Task",
         entry_invariants=[HAS_NEG_DEF],     # the definition of the spec predicate has_negative (opaque everywhere else)
         raises={"ValueError": "self.objective_weights is not None and has_negative(self.objective_weights)"},
         ensures=[("same", "result is self"), ("pure", "heap_unchanged()")], properties=["C06"])

contract(M + "Task.__init__",
         params=dict(kwargs='{"variables": "list[Variable]", "minmax?": "TaskType", "seed?": "opt[int]", "objective_weights?": "opt[list[float]]"}'),
         cases=[{"has_minmax": True, "has_seed": True, "has_objective_weights": True},
                {"has_minmax": False, "has_seed": False, "has_objective_weights": False}],
         lets={"VS0": "kwargs['variables']"},
         raises={"ValueError": "has_key(kwargs, 'objective_weights') and kwargs['objective_weights'] is not None and"
                               " has_negative(kwargs['objective_weights'])"},
         assigns=["self.variables", "self.space_dimension", "self.minmax", "self.seed", "self.objective_weights", "self.data", "self._EPS"],
         ensures=[("dimension-is-the-sum-of-the-sizes", "self.space_dimension == sumsizes(VS0)"),
                  ("variables-kept-in-order", "len(self.variables) == len(VS0) and all(self.variables[j] is VS0[j] for j in range(len(VS0)))"),
                  ("caller-list-untouched", "unchanged(VS0)")],
         properties=["C14"])

TASK_INV = ["task_wf(self)"]
contract(M + "Task.get_bounds", returns="tuple[nd[val], nd[val]]", entry_invariants=TASK_INV,
         locals=dict(lb="list[val]", ub="list[val]"),
         invariants={"loop1": ["len(lb) == off(self, loop1_i) and len(ub) == off(self, loop1_i)",
                               "all(lb[i] is blo(self, i) and ub[i] is bhi(self, i) for i in range(off(self, loop1_i)))",
                               "lb is not ub and loop1_seq is self.variables"]},
         ensures=[("one-pair-per-coordinate", "len(result[0]) == " + DIM + " and len(result[1]) == " + DIM),
                  ("own-variable-bounds", "all(result[0][i] is blo(self, i) and result[1][i] is bhi(self, i) for i in range(" + DIM + "))"),
                  ("pure", "heap_unchanged()")],
         properties=["C14"])

contract(M + "Task.get_variables", returns="list[Variable]", entry_invariants=TASK_INV,
         ensures=[("fresh", "fresh(result)"), ("one-per-coordinate", "len(result) == " + DIM),
                  ("flattened-in-order", "all(result[i] is flat(self, i) for i in range(" + DIM + "))"),
                  ("pure", "heap_unchanged()")],
         properties=["C14"])

contract(M + "Task.empty_solution", returns="list[val]", assigns=["rng"], entry_invariants=TASK_INV,
         ensures=[("fresh", "fresh(result)"), ("in-space", "Space(self, result)"), ("nanfree", "nanfree(self, result)")],
         properties=["C14", "C01"])

contract(M + "Task.objective_function", params=dict(x="list[val]"),
         returns={"case": "__obj__", "scalar": "float", "list": "list[float]", "default": "scalar"}, verify=False,
         assumed_reason="the user's objective: deterministic, total on the search space, side-effect free (ValidTask)",
         requires=[("only-evaluated-inside-the-search-space", "Space(self, x)")],
         ensures=[("value", "implies(scalar_case(), result == F(self, x))"),
                  ("count", "implies(not scalar_case(), len(result) == nobj(self))"),
                  ("values", "implies(not scalar_case(), all(result[k] == Fk(self, x, k) for k in range(nobj(self))))")],
         allocates=True, properties=[])

SOL_CASES = [{"solution": "list[val]"}, {"solution": "nd[val]"}]
contract(M + "Task.correct_solution", params=dict(solution="list[val]"), returns="list[val]", cases=SOL_CASES,
         requires=["len(solution) >= " + DIM, "nanfree(self, solution)"],
         ensures=[("fresh", "fresh(result)"), ("one-per-coordinate", "len(result) == " + DIM),
                  ("coordinate-wise-with-the-owning-variable", "all(result[i] is Corr(flat(self, i), solution[i]) for i in range(" + DIM + "))"),
                  ("in-space", "Space(self, result)"),
                  ("members-unchanged", "implies(Space(self, solution), all(result[i] is solution[i] for i in range(" + DIM + ")))"),
                  ("pure", "heap_unchanged()")],
         properties=["C01", "C05", "C14"])

contract(M + "Task.initial_solution", params=dict(solution="opt[list[val]]"), returns="list[val]",
         cases=[{"solution": "None"}, {"solution": "list[val]"}, {"solution": "nd[val]"}],
         requires=["implies(solution is not None, len(solution) >= " + DIM + " and nanfree(self, solution))"],
         ensures=[("fresh", "fresh(result)"), ("in-space", "Space(self, result)"), ("pure", "heap_unchanged()")],
         assigns=["rng"], properties=["C01", "C05"])

contract(M + "Task.solve", params=dict(x="list[val]"), returns={"case": "__obj__", "scalar": "float", "list": "list[float]", "default": "scalar"},
         cases=[{"__obj__": "scalar"}, {"__obj__": "list"}],
         requires=["Space(self, x)"],
         ensures=[("objective-at-x", "implies(scalar_case(), result == F(self, x))"),
                  ("objective-count", "implies(not scalar_case(), len(result) == nobj(self))"),
                  ("objective-values", "implies(not scalar_case(), all(result[k] == Fk(self, x, k) for k in range(nobj(self))))"),
                  ("pure", "heap_unchanged()")],
         properties=["C02", "C05"])

# ---- result packaging (C02, C03, C12, C15): sign restored exactly once, positions and fitness kept, own list ----------------
KW_CASES = [{"has_task_type": True}, {"has_task_type": False}]
TT = "(kwargs['task_type'] if has_key(kwargs, 'task_type') else TaskType.MIN)"

contract(M + "Population.__init__", params=dict(kwargs='{"agents": "list[Agent]", "task_type?": "TaskType"}'),
         cases=KW_CASES,
         lets={"A0": "kwargs['agents']"},
         assigns=["self.agents"],
         ensures=[("one-agent-per-agent", "len(self.agents) == len(A0)"),
                  ("owns-its-list", "fresh(self.agents)"),
                  ("positions-and-fitness-kept", "all(self.agents[k].position is A0[k].position and"
                                                 " self.agents[k].fitness == A0[k].fitness for k in range(len(A0)))"),
                  ("user-sign-cost", "all(self.agents[k].cost == (A0[k].cost if " + TT + " == TaskType.MIN else -A0[k].cost)"
                                     " for k in range(len(A0)))"),
                  ("min-keeps-the-objects", "implies(" + TT + " == TaskType.MIN, all(self.agents[k] is A0[k] for k in range(len(A0))))"),
                  ("max-makes-copies", "implies(" + TT + " != TaskType.MIN, all(fresh(self.agents[k]) for k in range(len(A0))))"),
                  ("caller-list-untouched", "unchanged(A0)"),
                  ("objects-untouched", "heap_unchanged('self.agents')")],
         properties=["C02", "C03", "C12", "C15", "C01"])

contract(M + "OptimizationResult.__init__",
         params=dict(kwargs='{"evolution": "list[Population]", "rates": "list[float]", "best_solution": "opt[Agent]", "task_type?": "TaskType"}'),
         cases=KW_CASES,
         lets={"B0": "kwargs['best_solution']"},
         assigns=["self.evolution", "self.rates", "self.best_solution", "self.task_type"],
         ensures=[("direction-recorded", "self.task_type == " + TT),
                  ("history-kept", "len(self.evolution) == len(kwargs['evolution']) and"
                                   " all(self.evolution[k] is kwargs['evolution'][k] for k in range(len(self.evolution)))"),
                  ("rates-kept", "len(self.rates) == len(kwargs['rates']) and"
                                 " all(self.rates[k] == kwargs['rates'][k] for k in range(len(self.rates)))"),
                  ("best-none-iff-none", "(self.best_solution is None) == (B0 is None)"),
                  ("best-position-fitness-kept", "implies(B0 is not None, self.best_solution.position is B0.position and"
                                                 " self.best_solution.fitness == B0.fitness)"),
                  ("best-user-sign-cost", "implies(B0 is not None, self.best_solution.cost =="
                                          " (B0.cost if " + TT + " == TaskType.MIN else -B0.cost))"),
                  ("objects-untouched", "heap_unchanged('self.evolution', 'self.rates', 'self.best_solution', 'self.task_type')")],
         properties=["C02", "C03", "C12", "C15"])

# ---- variable laws (C13) ------------------------------------------------------------------------------------------------------
VALID_CV = ["finite(self.lower_bound) and finite(self.upper_bound)", "self.lower_bound < self.upper_bound"]

contract(M + "ContinuousVariable.correct", params=dict(value="float"), returns="float", float_mode="fp",
         cases=[{"value": "float"}, {"value": "int"}],
         requires=VALID_CV,
         ensures=[("clip", "isnan(value) or result == clipf(value, self.lower_bound, self.upper_bound)"),
                  ("into-the-domain", "implies(not isnan(value), self.lower_bound <= result <= self.upper_bound and finite(result))"),
                  ("members-unchanged", "implies(self.lower_bound <= value <= self.upper_bound, result == value)"),
                  ("idempotent", "clipf(result, self.lower_bound, self.upper_bound) == result or isnan(value)"),
                  ("pure", "heap_unchanged()")],
         properties=["C13", "C01"])

contract(M + "ContinuousVariable.randomize", returns="float", float_mode="fp", requires=VALID_CV, assigns=["rng"],
         ensures=[("member", "self.lower_bound <= result <= self.upper_bound"), ("pure", "heap_unchanged()")],
         properties=["C13", "C01"])

contract(M + "ContinuousVariable.validate_bounds", returns="ContinuousVariable", float_mode="fp",
         raises={"ValueError": "self.upper_bound <= self.lower_bound"},
         ensures=[("returns-self", "result is self"), ("pure", "heap_unchanged()")],
         properties=["C13", "C06"])

contract(M + "ContinuousVariable.get_bounds", returns="tuple[float, float]",
         ensures=[("own-bounds", "result[0] == self.lower_bound and result[1] == self.upper_bound")], properties=["C13", "C14"])
contract(M + "ContinuousVariable.decode", params=dict(value="float"), returns="float",
         ensures=[("identity", "result == value")], properties=["C13"])

# DiscreteVariable: real mode (A_real): exact for integers and for |value| < 2**53; the floating-point corner cases
# (n - eps == n for n >= 3) are covered by the bounded law campaign (pyvc/laws.py)
NCH = "len(self.choices)"
contract(M + "DiscreteVariable.get_bounds", returns="tuple[int, int]",
         ensures=[("index-range", "result[0] == 0 and result[1] == " + NCH + " - 1")], properties=["C13", "C14"])

contract(M + "DiscreteVariable.correct", params=dict(value="float"), returns="int",
         cases=[{"value": "float"}, {"value": "int"}],
         requires=[NCH + " >= 1"],
         ensures=[("into-the-domain", "0 <= result < " + NCH),
                  ("members-unchanged", "implies(0 <= value <= " + NCH + " - 1 and value == int(value), result == value)"),
                  ("idempotent", "imin(imax(result, 0), " + NCH + " - 1) == result"),
                  ("truncated-clip", "result == int(clipf(value, 0, " + NCH + " - 1))"),
                  ("pure", "heap_unchanged()")],
         properties=["C13", "C01"])

contract(M + "DiscreteVariable.randomize", returns="int", requires=[NCH + " >= 1"], assigns=["rng"],
         ensures=[("member", "0 <= result < " + NCH), ("pure", "heap_unchanged()")], properties=["C13", "C01"])

contract(M + "BinaryVariable.validate_n_vars", params=dict(v="int"), returns="int",
         raises={"ValueError": "v <= 0"}, ensures=[("kept", "result == v")], properties=["C13", "C06"])

contract(M + "EarlyStopping.validate_patience", params=dict(v="opt[int]"), returns="opt[int]",
         raises={"ValueError": "v is not None and v < 1"}, ensures=[("kept", "(result is None) == (v is None) and implies(v is not None, result == v)")],
         properties=["C04", "C06"])

# ---- multi-variables act child-wise, each child with its own rule (C13, C14) -----------------------------------------------
for cls_ in ("ContinuousMultiVariable", "DiscreteMultiVariable", "MultiObjectiveVariable", "BinaryVariable"):
    contract(M + cls_ + ".correct", params=dict(value="list[val]"), returns="list[val]",
             cases=[{"value": "list[val]"}, {"value": "nd[val]"}],
             requires=["len(value) >= len(self._children)"],
             ensures=[("one-per-child", "len(result) == len(self._children)"),
                      ("child-wise", "all(result[i] is Corr(self._children[i], value[i]) for i in range(len(self._children)))"),
                      ("into-the-domain", "all(implies(not isnanv(value[i]), Dom(self._children[i], result[i])) for i in range(len(self._children)))"),
                      ("members-unchanged", "all(implies(Dom(self._children[i], value[i]), result[i] is value[i]) for i in range(len(self._children)))"),
                      ("pure", "heap_unchanged()")],
             properties=["C13", "C14"])
    contract(M + cls_ + ".get", returns="list[Variable]",
             ensures=[("children", "result is self._children")], properties=["C14"])

# ---- the seven classes refine the abstract structure contract of Variable (size / has_children / get), C14 ----------------------
# Object invariants assumed at entry (established by the constructors; checked by the law campaign): var_wf(self); a leaf class
# has no children; the size of a composite is the length of the list it was declared with.
LEAF = ["var_wf(self)", "not kids(self)"]
COMP = ["var_wf(self)", "kids(self)"]
for cls_ in ("ContinuousVariable", "DiscreteVariable", "PermutationVariable"):
    contract(M + cls_ + ".size", returns="int", entry_invariants=LEAF, ensures=[("size", "result == vsize(self) and result >= 1")], properties=["C14"])
    contract(M + cls_ + ".has_children", returns="bool", entry_invariants=LEAF, ensures=[("kids", "result == kids(self)")], properties=["C14"])
    contract(M + cls_ + ".get", returns="Variable", entry_invariants=LEAF, ensures=[("itself", "result is self and result is child(self, 0)")],
             properties=["C14"])
for cls_, size_inv in (("ContinuousMultiVariable", "len(self.lower_bounds) == vsize(self)"),
                       ("MultiObjectiveVariable", "len(self.lower_bounds) == vsize(self)"),
                       ("DiscreteMultiVariable", "len(self.choices) == vsize(self)"),
                       ("BinaryVariable", "self.n_vars == vsize(self)")):
    contract(M + cls_ + ".size", returns="int", entry_invariants=COMP + [size_inv, "vsize(self) >= 1"],
             ensures=[("size", "result == vsize(self) and result >= 1")], properties=["C14"])
    contract(M + cls_ + ".has_children", returns="bool", entry_invariants=COMP, ensures=[("kids", "result == kids(self)")], properties=["C14"])

# ---- randomize / get_bounds / decode of the composite classes refine the abstract contract child-wise (C13, C14) ---------------
for cls_ in ("ContinuousMultiVariable", "DiscreteMultiVariable", "MultiObjectiveVariable", "BinaryVariable"):
    contract(M + cls_ + ".randomize", returns="list[val]", entry_invariants=COMP, assigns=["rng"], hints=["eager-inst"],
             ensures=[("fresh", "fresh(result)"), ("one-per-child", "len(result) == vsize(self)"),
                      ("every-draw-in-its-child's-domain", "all(Dom(child(self, r), result[r]) and not isnanv(result[r]) for r in range(vsize(self)))"),
                      ("pure", "heap_unchanged()")],
             properties=["C13", "C14", "C01"])

# get_bounds of the two continuous composites: the declared lists themselves, one pair per coordinate; cbound_lo / cbound_hi(v, r)
# *are* the r-th entries of the declared lists (object invariant bounds_wf: definitional for these two classes)
BND_WF = ["len(self.lower_bounds) == vsize(self) and len(self.upper_bounds) == vsize(self)",
          "all(fv(self.lower_bounds[r]) is cbound_lo(self, r) and fv(self.upper_bounds[r]) is cbound_hi(self, r) for r in range(vsize(self)))"]
for cls_ in ("ContinuousMultiVariable", "MultiObjectiveVariable"):
    contract(M + cls_ + ".get_bounds", returns="tuple[list[float], list[float]]", entry_invariants=COMP + BND_WF,
             ensures=[("lower-first-upper-second", "result[0] is self.lower_bounds and result[1] is self.upper_bounds"),
                      ("one-pair-per-coordinate", "len(result[0]) == vsize(self) and len(result[1]) == vsize(self)"),
                      ("own-coordinate-bounds", "all(fv(result[0][r]) is cbound_lo(self, r) and fv(result[1][r]) is cbound_hi(self, r) for r in range(vsize(self)))"),
                      ("pure", "heap_unchanged()")],
             properties=["C14", "C13"])

# decode: a leaf decodes its own value (abstract: Dec(var, value), a function of the variable and the value); a composite decodes
# its slice child-wise, child r with entry r (C13 "decode of a corrected value", C14 "that variable's decoded slice")
contract(M + "Variable.decode", params=dict(value="any"),
         returns={"when": "kids(self)", "then": "list[val]", "else": "val"}, verify=False, allocates=True,
         arg_shape_when={"then": {"value": ["list", "nd"]}, "else": {"value": ["val", "int", "float"]}},
         requires_when={"then": [("a-composite-gets-a-slice-of-its-size", "len(value) >= vsize(self)")]},
         assumed_reason="abstract method; the leaf classes decode by identity (ContinuousVariable.decode, VC) or by table look-up "
                        "(DiscreteVariable / PermutationVariable: bounded law campaign); the four composites refine the "
                        "child-wise clause (VCs below)",
         ensures_when={"then": [("child-wise", "fresh(result) and len(result) == vsize(self) and "
                                               "all(result[r] is Dec(child(self, r), value[r]) for r in range(vsize(self)))")],
                       "else": [("function-of-the-value", "result is Dec(self, value)")]},
         ensures=[("pure", "heap_unchanged()")], properties=[])
for cls_ in ("ContinuousMultiVariable", "DiscreteMultiVariable", "MultiObjectiveVariable", "BinaryVariable"):
    contract(M + cls_ + ".decode", params=dict(value="list[val]"), returns="list[val]", entry_invariants=COMP, hints=["eager-inst"],
             cases=[{"value": "list[val]"}, {"value": "nd[val]"}],
             requires=["len(value) >= len(self._children)"],
             ensures=[("fresh", "fresh(result)"), ("one-per-child", "len(result) == len(self._children)"),
                      ("child-wise", "all(result[i] is Dec(self._children[i], value[i]) for i in range(len(self._children)))"),
                      ("argument-untouched", "unchanged(value)"), ("pure", "heap_unchanged()")],
             properties=["C13", "C14"])

# validate_bounds of the two continuous composites (C13 / C06: length-mismatched, inverted or equal bounds are rejected)
for cls_ in ("ContinuousMultiVariable", "MultiObjectiveVariable"):
    contract(M + cls_ + ".validate_bounds", returns=cls_,
             raises={"ValueError": "len(self.lower_bounds) != len(self.upper_bounds) or "
                                   "any(self.upper_bounds[r] <= self.lower_bounds[r] for r in range(len(self.lower_bounds)))"},
             ensures=[("returns-self", "result is self"), ("pure", "heap_unchanged()")],
             properties=["C13", "C06"])

# transform_solution (C14 last clause, C02 "equivalently"): one entry per declared variable, in declaration order, keyed by its
# name, holding the decoded slice [off(j), off(j) + size(j)) of the position. The returned dict is represented by its insertion
# log (dkeys / dvals); with pairwise distinct names the log *is* the dict's item list.
contract(M + "Task.transform_solution", params=dict(x="list[val]"), cases=[{"x": "list[val]"}, {"x": "nd[val]"}],
         entry_invariants=TASK_INV, locals=dict(solution="dlog[val]"),
         requires=["len(x) >= " + DIM],
         invariants={"loop1": ["counter == off(self, loop1_i)", "loop1_seq is self.variables",
                               "len(dkeys(solution)) == loop1_i and len(dvals(solution)) == loop1_i",
                               "all(dkeys(solution)[j] == self.variables[j].name for j in range(loop1_i))",
                               "all(implies(not kids(self.variables[j]), dvals(solution)[j] is Dec(self.variables[j], x[off(self, j)]))"
                               " for j in range(loop1_i))",
                               "all(implies(kids(self.variables[j]), isboxl(dvals(solution)[j]) and allocated(unboxl(dvals(solution)[j])) and"
                               " unboxl(dvals(solution)[j]) is not dvals(solution) and"
                               " len(unboxl(dvals(solution)[j])) == vsize(self.variables[j])) for j in range(loop1_i))",
                               "all(implies(kids(self.variables[j]), all(unboxl(dvals(solution)[j])[r] is"
                               " Dec(child(self.variables[j], r), x[off(self, j) + r]) for r in range(vsize(self.variables[j]))))"
                               " for j in range(loop1_i))"]},
         ensures=[("one-entry-per-declared-variable", "len(dkeys(result)) == len(self.variables) and len(dvals(result)) == len(self.variables)"),
                  ("keyed-by-name-in-declaration-order", "all(dkeys(result)[j] == self.variables[j].name for j in range(len(self.variables)))"),
                  ("a-leaf-decodes-its-own-coordinate", "all(implies(not kids(self.variables[j]), dvals(result)[j] is"
                                                        " Dec(self.variables[j], x[off(self, j)])) for j in range(len(self.variables)))"),
                  ("a-composite-decodes-a-list-of-its-size", "all(implies(kids(self.variables[j]), isboxl(dvals(result)[j]) and"
                                                             " len(unboxl(dvals(result)[j])) == vsize(self.variables[j]))"
                                                             " for j in range(len(self.variables)))"),
                  ("a-composite-decodes-its-own-slice-child-wise",
                   "all(implies(kids(self.variables[j]), all(unboxl(dvals(result)[j])[r] is"
                   " Dec(child(self.variables[j], r), x[off(self, j) + r]) for r in range(vsize(self.variables[j]))))"
                   " for j in range(len(self.variables)))"),
                  ("position-untouched", "unchanged(x)"), ("pure", "heap_unchanged()")],
         properties=["C14", "C02"])

# ---- constructors of two composites: one leaf child per declared coordinate (the part of var_wf a VC can state), C13 / C14 -----
contract(M + "BinaryVariable.__init__", params=dict(kwargs='{"name": "str", "n_vars": "int"}'),
         raises={"ValueError": "kwargs['n_vars'] <= 0"},
         assigns=["self.name", "self.n_vars", "self._children"],
         ensures=[("size-kept", "self.n_vars == kwargs['n_vars']"),
                  ("one-child-per-bit", "fresh(self._children) and len(self._children) == self.n_vars"),
                  ("every-child-is-a-fresh-two-choice-variable", "all(fresh(self._children[i]) and len(self._children[i].choices) == 2"
                                                                 " for i in range(self.n_vars))")],
         properties=["C13", "C14"])
for cls_ in ("ContinuousMultiVariable", "MultiObjectiveVariable"):
    contract(M + cls_ + ".__init__", params=dict(kwargs='{"name": "str", "lower_bounds": "list[float]", "upper_bounds": "list[float]"}'),
             lets={"LB0": "kwargs['lower_bounds']", "UB0": "kwargs['upper_bounds']"},
             raises={"ValueError": "len(LB0) != len(UB0) or any(UB0[r] <= LB0[r] for r in range(len(LB0)))"},
             assigns=["self.name", "self.lower_bounds", "self.upper_bounds", "self._children"],
             ensures=[("bounds-kept", "len(self.lower_bounds) == len(LB0) and len(self.upper_bounds) == len(UB0) and"
                                      " all(self.lower_bounds[r] == LB0[r] and self.upper_bounds[r] == UB0[r] for r in range(len(LB0)))"),
                      ("one-child-per-coordinate", "fresh(self._children) and len(self._children) == len(LB0)"),
                      ("child-r-has-the-bounds-of-coordinate-r", "all(fresh(self._children[r]) and self._children[r].lower_bound == LB0[r] and"
                                                                 " self._children[r].upper_bound == UB0[r] for r in range(len(LB0)))"),
                      ("caller-lists-untouched", "unchanged(LB0) and unchanged(UB0)")],
             properties=["C13", "C14"])

# get_bounds of BinaryVariable: one pair per bit, [0, 2 - eps] (real arithmetic: A_real; 2 - 2**-52 is a double); n_vars >= 1 is the
# object invariant that validate_n_vars / the constructor establish (VCs above)
contract(M + "BinaryVariable.get_bounds", returns="tuple[nd[float], nd[float]]", entry_invariants=["self.n_vars >= 1"],
         ensures=[("fresh", "fresh(result[0]) and fresh(result[1]) and result[0] is not result[1]"),
                  ("one-pair-per-bit", "len(result[0]) == self.n_vars and len(result[1]) == self.n_vars"),
                  ("zero-to-just-below-two", "all(result[0][r] == 0.0 and 1.0 < result[1][r] < 2.0 for r in range(self.n_vars))"),
                  ("lower-below-upper", "all(result[0][r] < result[1][r] for r in range(self.n_vars))"),
                  ("pure", "heap_unchanged()")], properties=["C14", "C13"])
contract(M + "PermutationVariable.get_bounds", returns="tuple[list[float], list[float]]", entry_invariants=["len(self.items) >= 1"],
         ensures=[("fresh", "fresh(result[0]) and fresh(result[1]) and result[0] is not result[1]"),
                  ("one-pair-per-item", "len(result[0]) == len(self.items) and len(result[1]) == len(self.items)"),
                  ("random-key-interval", "all(result[0][r] == 0.0 and result[1][r] == len(self.items) - 0.0001 for r in range(len(self.items)))"),
                  ("lower-below-upper", "all(result[0][r] < result[1][r] for r in range(len(self.items)))"),
                  ("pure", "heap_unchanged()")], properties=["C14", "C13"])
