"""Contracts for pyvolutionary/models.py.

The abstract Variable contract (refined by the 7 classes, C13) is stated with the uninterpreted Dom(var, value) and
Corr(var, value); Task methods are verified against it (clients never see a Variable body)."""
from pyvc.contract import contract

M = "pyvolutionary.models."

# ---- Task (abstract view used by OptimizationAbstract; bodies verified below) ---------------------------------------------
contract(M + "Task.initial_solution", params=dict(solution="opt[list[val]]"), returns="list[val]",
         cases=[{"solution": "None"}, {"solution": "list[val]"}, {"solution": "nd[val]"}],
         requires=["implies(solution is not None, len(solution) >= self.space_dimension and nanfree(self, solution))"],
         ensures=[("fresh", "fresh(result)"), ("in-space", "Space(self, result)")],
         assigns=["rng"], properties=["C01", "C05"], verify=False)

contract(M + "Task.solve", params=dict(x="list[val]"), returns={"case": "__obj__", "scalar": "float", "list": "list[float]", "default": "scalar"},
         requires=["Space(self, x)"],
         ensures=[("objective-at-x", "implies(scalar_case(), result == F(self, x))"),
                  ("objective-count", "implies(not scalar_case(), len(result) == nobj(self))")],
         properties=["C02", "C05"], verify=False)

# ---- result packaging (C02, C03, C12, C15): sign restored exactly once, positions and fitness kept, own list ----------------
KW_CASES = [{"has_task_type": True}, {"has_task_type": False}]
TT = "(kwargs['task_type'] if has_key(kwargs, 'task_type') else TaskType.MIN)"

contract(M + "Population.__init__", params=dict(kwargs='{"agents": "list[Agent]", "task_type?": "TaskType"}'),
         cases=KW_CASES,
         lets={"A0": "kwargs['agents']"},
         assigns=["self.agents"],
         ensures=[("one-agent-per-agent", "len(self.agents) == len(A0)"),
                  ("owns-its-list", "fresh(self.agents)"),
                  ("positions-and-fitness-kept", "all(self.agents[k].position is A0[k].position and"
                                                 " self.agents[k].fitness == A0[k].fitness for k in range(len(A0)))"),
                  ("user-sign-cost", "all(self.agents[k].cost == (A0[k].cost if " + TT + " == TaskType.MIN else -A0[k].cost)"
                                     " for k in range(len(A0)))"),
                  ("min-keeps-the-objects", "implies(" + TT + " == TaskType.MIN, all(self.agents[k] is A0[k] for k in range(len(A0))))"),
                  ("max-makes-copies", "implies(" + TT + " != TaskType.MIN, all(fresh(self.agents[k]) for k in range(len(A0))))"),
                  ("caller-list-untouched", "unchanged(A0)"),
                  ("objects-untouched", "heap_unchanged('self.agents')")],
         properties=["C02", "C03", "C12", "C15", "C01"])

contract(M + "OptimizationResult.__init__",
         params=dict(kwargs='{"evolution": "list[Population]", "rates": "list[float]", "best_solution": "opt[Agent]", "task_type?": "TaskType"}'),
         cases=KW_CASES,
         lets={"B0": "kwargs['best_solution']"},
         assigns=["self.evolution", "self.rates", "self.best_solution", "self.task_type"],
         ensures=[("direction-recorded", "self.task_type == " + TT),
                  ("history-kept", "len(self.evolution) == len(kwargs['evolution']) and"
                                   " all(self.evolution[k] is kwargs['evolution'][k] for k in range(len(self.evolution)))"),
                  ("rates-kept", "len(self.rates) == len(kwargs['rates']) and"
                                 " all(self.rates[k] == kwargs['rates'][k] for k in range(len(self.rates)))"),
                  ("best-none-iff-none", "(self.best_solution is None) == (B0 is None)"),
                  ("best-position-fitness-kept", "implies(B0 is not None, self.best_solution.position is B0.position and"
                                                 " self.best_solution.fitness == B0.fitness)"),
                  ("best-user-sign-cost", "implies(B0 is not None, self.best_solution.cost =="
                                          " (B0.cost if " + TT + " == TaskType.MIN else -B0.cost))"),
                  ("objects-untouched", "heap_unchanged('self.evolution', 'self.rates', 'self.best_solution', 'self.task_type')")],
         properties=["C02", "C03", "C12", "C15"])
