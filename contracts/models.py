"""Contracts for pyvolutionary/models.py.

The abstract Variable contract (refined by the 7 classes, C13) is stated with the uninterpreted Dom(var, value) and
Corr(var, value); Task methods are verified against it (clients never see a Variable body)."""
from pyvc.contract import contract

M = "pyvolutionary.models."

# ---- Task (abstract view used by OptimizationAbstract; bodies verified below) ---------------------------------------------
contract(M + "Task.initial_solution", params=dict(solution="opt[list[val]]"), returns="list[val]",
         cases=[{"solution": "None"}, {"solution": "list[val]"}, {"solution": "nd[val]"}],
         requires=["implies(solution is not None, len(solution) >= self.space_dimension and nanfree(self, solution))"],
         ensures=[("fresh", "fresh(result)"), ("in-space", "Space(self, result)")],
         assigns=["rng"], properties=["C01", "C05"], verify=False)

contract(M + "Task.solve", params=dict(x="list[val]"), returns={"case": "__obj__", "scalar": "float", "list": "list[float]", "default": "scalar"},
         requires=["Space(self, x)"],
         ensures=[("objective-at-x", "implies(scalar_case(), result == F(self, x))"),
                  ("objective-count", "implies(not scalar_case(), len(result) == nobj(self))")],
         properties=["C02", "C05"], verify=False)
