#!/usr/bin/env python3
"""Confirm that the repository's test suite passes with each seeded change applied (scratch worktrees, two at a time)."""
import json, os, subprocess, sys
from concurrent.futures import ThreadPoolExecutor


def one(d):
    name = os.path.basename(d.rstrip("/"))
    wt = f"/tmp/wt_t_{name}"
    sh = lambda c: subprocess.run(c, shell=True, capture_output=True, text=True)
    sh(f"git -C /repo worktree remove --force {wt}; rm -rf {wt}; git -C /repo worktree add -q --detach {wt} HEAD")
    ap = sh(f"git -C {wt} apply {d}/patch.diff")
    if ap.returncode != 0:
        sh(f"git -C /repo worktree remove --force {wt}")
        return {"seed": d, "applies": False}
    r = sh(f"cd {wt} && PYTHONPATH={wt} nice -n 5 /venv/bin/python -m pytest -q -p no:cacheprovider -n 6 --timeout=900 tests 2>&1 | tail -3")
    last = r.stdout.strip().splitlines()[-1] if r.stdout.strip() else ""
    sh(f"git -C /repo worktree remove --force {wt}; rm -rf {wt}")
    return {"seed": d, "applies": True, "tests": last, "tests_pass": " passed" in last and "failed" not in last and "error" not in last}


if __name__ == "__main__":
    with ThreadPoolExecutor(2) as ex:
        for o in ex.map(one, sys.argv[1:]):
            print(json.dumps(o), flush=True)
