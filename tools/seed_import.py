#!/usr/bin/env python3
"""Copy evaluated seeds (results of tools/seed_eval.py, JSON lines) into /verif/seeded/<id>/ and write seeded/README.md."""
import json, os, shutil, sys
V = os.path.dirname(os.path.dirname(os.path.abspath(__file__)))
rows = []
for f in sys.argv[1:]:
    for l in open(f):
        l = l.strip()
        if l:
            rows.append(json.loads(l))
os.makedirs(os.path.join(V, "seeded"), exist_ok=True)
table = []
for r in rows:
    if "error" in r or not r.get("applies"):
        continue
    name = os.path.basename(r["seed"].rstrip("/")).replace("seed_", "")
    confirmed = r.get("demo_passes_without") and r.get("demo_fails_with_change") and r.get("tests_pass", False)
    if not confirmed:
        table.append((name, r["property"], "NOT KEPT (not confirmed: demo/tests)", r.get("what", "")))
        continue
    d = os.path.join(V, "seeded", name)
    os.makedirs(d, exist_ok=True)
    for fn in ("patch.diff", "demo.py"):
        shutil.copy(os.path.join(r["seed"], fn), os.path.join(d, fn))
    meta = json.load(open(os.path.join(r["seed"], "meta.json")))
    meta["confirmed_by_me"] = {"demo_passes_without": r["demo_passes_without"], "demo_fails_with_change": r["demo_fails_with_change"],
                               "tests": r.get("tests"), "ran": "tools/seed_eval.py: scratch worktree of /repo HEAD, git apply patch.diff, "
                               "PYTHONPATH=<worktree> demo.py before/after, pytest -n 6 tests, PYVC_REPO=<worktree> ./check <property>"}
    meta["check_result"] = r.get("checks")
    meta["detected"] = r.get("detected")
    json.dump(meta, open(os.path.join(d, "meta.json"), "w"), indent=1)
    first = next((l for v in r.get("checks", {}).values() for l in v["lines"] if l.startswith("VIOLATION")), "")
    table.append((name, r["property"], ("caught: " + first.split("replay=")[-1].replace("/verif/replays/", "")[:110]) if r.get("detected") else "MISSED", meta.get("what", "")[:160]))
with open(os.path.join(V, "seeded", "README.md"), "w") as f:
    f.write("# Independently seeded changes and which check catches them\n\nWritten by sub-agents that saw only the text of one property and a scratch "
            "worktree; confirmed by `tools/seed_eval.py` (demo fails with / passes without the change, the 285 tests pass, the property's "
            "quick check run against the changed tree).\n\n| seed | property | result of `./check <property>` on the changed tree | change |\n|---|---|---|---|\n")
    for t in sorted(table):
        f.write("| " + " | ".join(x.replace("|", "/") for x in t) + " |\n")
print(len(table), "rows;", sum(1 for t in table if t[2].startswith("caught")), "caught,", sum(1 for t in table if t[2] == "MISSED"), "missed")
