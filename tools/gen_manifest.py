#!/usr/bin/env python3
"""Regenerate MANIFEST.json from the claim table below (kept next to the code so the two do not drift)."""
import json, os
V = os.path.dirname(os.path.dirname(os.path.abspath(__file__)))
props = [json.loads(l) for l in open(os.path.join(V, "properties.jsonl"))]
import sys
sys.path.insert(0, V)
from pyvc.claims import CLAIMS, NOT_APPLICABLE  # noqa

checks = []
for p in props:
    pid = p["id"]
    if pid in CLAIMS:
        c = CLAIMS[pid]
        checks.append({
            "property_id": pid,
            "quick_cmd": f"./check {pid} --tier quick",
            "thorough_cmd": f"./check {pid} --tier thorough",
            "evidence_file": f"evidence/{pid}.json",
            "replay_cmd_template": "./check --replay {path}",
            "engine": "pyvc",
            "level_claimed": {"category": c.get("category", "proof"), "text": c["text"], "design_ref": c.get("design_ref", "DESIGN.md §7")},
            "level_note": c["note"],
            "technique": c["technique"],
        })
na = [{"property_id": p["id"], "reason": NOT_APPLICABLE.get(p["id"], "check not built yet (work in progress; DESIGN.md §14 gives the order of work)")}
      for p in props if p["id"] not in CLAIMS]
m = {
    "version": 1,
    "setup_cmd": "./setup.sh",
    "hooks": {"guard": "PYVOLUTIONARY_VERIF",
              "enable": "no source hooks: contracts are sidecar files under /verif/contracts keyed by qualified name; run-time monitors are installed by monkey-patching inside the checker process",
              "baseline_off_cmd": "cd /repo && /venv/bin/python -m pytest -ra -q -p no:cacheprovider --timeout=900 --continue-on-collection-errors",
              "source_commits": [], "add_only": True},
    "engines": [{"name": "pyvc", "path": "pyvc/", "serves_properties": sorted(CLAIMS),
                 "kind_free_text": "verification-condition generator over the real AST of /repo (symbolic executor with heap model, sidecar contracts), z3 with cvc5 fall-back; frame/reads/provenance obligations over the optimizer classes; run-time form of the same contracts for replay and bounded stand-ins"}],
    "checks": checks,
    "not_applicable": na,
    "notes": "Exit codes of ./check: 0 held, 1 violation, 2 undecided, 3 machinery failure. See DESIGN.md.",
}
json.dump(m, open(os.path.join(V, "MANIFEST.json"), "w"), indent=1)
print("claimed:", sorted(CLAIMS), "not_applicable:", len(na))
