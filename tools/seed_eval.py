#!/usr/bin/env python3
"""Evaluate seeded changes: for each /tmp/seed_<id>_<n> (or /verif/seeded/<name>): apply patch.diff in a scratch worktree of
/repo, confirm the demo fails with it and passes without, the test suite passes with it, and run the property's check against it."""
import json, os, shutil, subprocess, sys, time
V = os.path.dirname(os.path.dirname(os.path.abspath(__file__)))
WT = f"/tmp/wt_eval_{os.getpid()}"


def sh(cmd, **kw):
    return subprocess.run(cmd, shell=True, capture_output=True, text=True, **kw)


def evaluate(d, run_tests=True, props=None):
    meta = json.load(open(os.path.join(d, "meta.json")))
    pid = meta.get("property", os.path.basename(d).split("_")[1])[:3]
    out = {"seed": d, "property": pid, "what": meta.get("what", "")[:200]}
    sh(f"git -C /repo worktree remove --force {WT}; rm -rf {WT}; git -C /repo worktree add -q --detach {WT} HEAD")
    env = dict(os.environ, PYTHONPATH=WT)
    r0 = sh(f"cd {WT} && /venv/bin/python {d}/demo.py", env=env, timeout=1200)
    out["demo_passes_without"] = r0.returncode == 0
    ap = sh(f"git -C {WT} apply {d}/patch.diff")
    out["applies"] = ap.returncode == 0
    if not out["applies"]:
        out["apply_err"] = ap.stderr[-300:]
        return out
    r1 = sh(f"cd {WT} && /venv/bin/python {d}/demo.py", env=env, timeout=1200)
    out["demo_fails_with_change"] = r1.returncode != 0
    out["demo_msg"] = (r1.stdout + r1.stderr)[-300:]
    tests = None
    if run_tests:
        tests = subprocess.Popen(f"cd {WT} && PYTHONPATH={WT} /venv/bin/python -m pytest -q -p no:cacheprovider -n 6 --timeout=900 tests 2>&1 | tail -3",
                                 shell=True, stdout=subprocess.PIPE, text=True)
    res = {}
    for p in (props or [pid]):
        t0 = time.time()
        c = sh(f"cd {V} && PYVC_REPO={WT} ./check {p}", timeout=3000)
        lines = [l for l in c.stdout.splitlines() if l.startswith(("VIOLATION", "DEGRADED", "UNDECIDED", "MACHINERY", "SUMMARY"))]
        res[p] = {"exit": c.returncode, "lines": [l[:220] for l in lines][:6], "wall": round(time.time() - t0)}
    out["checks"] = res
    out["detected"] = any(v["exit"] == 1 for v in res.values())
    if tests is not None:
        o = tests.communicate()[0]
        out["tests"] = o.strip().splitlines()[-1] if o.strip() else ""
        out["tests_pass"] = " passed" in out["tests"] and "failed" not in out["tests"]
    sh(f"git -C /repo worktree remove --force {WT}; rm -rf {WT}")
    return out


if __name__ == "__main__":
    args = [a for a in sys.argv[1:] if not a.startswith("-")]
    for d in args:
        try:
            o = evaluate(d.rstrip("/"), run_tests="--no-tests" not in sys.argv)
        except Exception as ex:
            o = {"seed": d, "error": f"{type(ex).__name__}: {ex}"}
        print(json.dumps(o), flush=True)
