#!/usr/bin/env python3
"""Self-test by seeded mutants (DESIGN §2.8): apply one edit to a scratch copy of the current tree, run the VC
generator on the functions concerned, expect a failing obligation.  Usage: tools/mutants.py [ids...]"""
import os, shutil, subprocess, sys, json, tempfile
from concurrent.futures import ThreadPoolExecutor
V = os.path.dirname(os.path.dirname(os.path.abspath(__file__)))
P = "pyvolutionary."
A = P + "abstract.OptimizationAbstract."
H = P + "helpers."
MUTANTS = [
    # id, file, old, new, functions to verify, expect_fail (False = harmless, must stay green)
    ("m10", "helpers.py", "        best = best_agents(population, n_best, task_type)", "        best = worst_agents(population, n_best, task_type)", [H + "special_agents"], True),
    ("m11", "abstract.py", "            self.optimization_step()\n", "            (self._best_agent, ), (self._worst_agent, ) = special_agents(self._population, n_best=1, n_worst=1)\n            self.optimization_step()\n", [A + "optimize"], False),
    ("m11b", "abstract.py", "            (self._best_agent, ), (self._worst_agent, ) = special_agents(self._population, n_best=1, n_worst=1)\n\n            # stop when", "            # stop when", [A + "optimize"], True),
    ("m12", "abstract.py", "has_to_stop = cycle >= max_cycles", "has_to_stop = cycle > max_cycles", [A + "__should_stop__"], True),
    ("m13", "abstract.py", "has_to_stop |= current_error <= fitness_error", "has_to_stop |= current_error < fitness_error", [A + "__should_stop__"], True),
    ("m14", "abstract.py", "for diff in self._error_diffs[-patience:]])", "for diff in self._error_diffs[-1:]])", [A + "__should_stop__"], True),
    ("m15", "abstract.py", "current_error = abs(1 - avg_fit)", "current_error = 1 - avg_fit", [A + "__error_check__"], True),
    ("m19", "abstract.py", "            if workers <= 0:", "            if workers < 0:", [A + "optimize"], True),
    ("m21", "abstract.py", "        np.random.seed(task.seed)", "        if task.seed:\n            np.random.seed(task.seed)", [A + "optimize"], True),
    ("m25", "abstract.py", "        self._current_cycle = 1\n        self._errors = []\n        self._error_diffs = []\n\n        np.random.seed", "        self._current_cycle = 1\n        self._error_diffs = []\n\n        np.random.seed", [A + "optimize"], True),
    ("m23", "abstract.py", "        np.random.seed(task.seed)\n        evolution: list[Population] = []", "        evolution: list[Population] = []", [A + "optimize"], True),
    ("m28", "helpers.py", "return sort_by_cost(population)[:population_size]", "return sort_by_cost(population)[:population_size - 1]", [H + "sort_and_trim"], True),
    ("m35", "helpers.py", "def sort_by_cost(population: list[T], task_type: TaskType | None = TaskType.MIN)", "def sort_by_cost(population: list[T], task_type: TaskType | None = TaskType.MAX)", [H + "sort_and_trim", A + "_greedy_select_population"], True),
    ("m41", "abstract.py", "            evolution.append(Population(agents=self._population, task_type=task.minmax))\n\n            (self", "            evolution.append(evolution[0])\n\n            (self", [A + "optimize"], True),
    ("m44", "helpers.py", "[len(population)-n_worst:]\n\n\ndef worst_agents_indexes", "[:n_worst]\n\n\ndef worst_agents_indexes", [H + "worst_agents"], True),
    ("m45", "helpers.py", "pop_new = population.copy()", "pop_new = population", [H + "sort_by_cost"], True),
    ("m46", "abstract.py", "new_agent.cost < agent_copy.cost", "new_agent.cost <= agent_copy.cost", [A + "_greedy_select_agent"], True),
    ("m48", "abstract.py", "self._population = sort_and_trim(self._population, self._config.population_size)", "self._population = sort_by_cost(self._population)[-self._config.population_size:]", [A + "_extend_and_trim_population"], True),
    ("m6", "abstract.py", "isinstance(cost, list) else -cost", "isinstance(cost, list) else cost", [A + "_fcn"], True),
    ("m7", "models.py", "        best_solution = kwargs.get(\"best_solution\")\n        if best_solution is not None:\n            kwargs[\"best_solution\"] = refine_best_solution(best_solution, task_type)", "        best_solution = kwargs.get(\"best_solution\")\n        if best_solution is not None:\n            kwargs[\"best_solution\"] = refine_best_solution(best_solution, TaskType.MAX)", [P + "models.OptimizationResult.__init__"], True),
    ("m4", "models.py", "            return a.model_copy(update={\"cost\": -a.cost})\n\n        task_type = kwargs.get(\"task_type\", TaskType.MIN)\n        agents", "            return a.model_copy(update={\"fitness\": -a.cost})\n\n        task_type = kwargs.get(\"task_type\", TaskType.MIN)\n        agents", [P + "models.Population.__init__"], True),
    ("m2", "abstract.py", "        position = self._task.initial_solution(position)\n", "        position = self._task.initial_solution(position) if position is None else list(position)\n", [A + "_init_agent"], True),
    ("m31", "helpers.py", "    for i in parallel.as_completed(executors):\n        res.append(i.result())", "    for i in parallel.as_completed(executors):\n        res.append(i.result())\n        if len(res) > 5:\n            break", [H + "get_pool_results"], True),
    ("m50", "abstract.py", "            (self._best_agent, ), (self._worst_agent, ) = special_agents(self._population, n_best=1, n_worst=1)\n\n            # stop when", "            self.optimization_step()\n            (self._best_agent, ), (self._worst_agent, ) = special_agents(self._population, n_best=1, n_worst=1)\n\n            # stop when", [A + "optimize"], True),
    ("m51", "abstract.py", "rates=self._errors,", "rates=self._error_diffs,", [A + "optimize"], True),
    ("m52", "abstract.py", "return [-c for c in cost] if isinstance(cost, list) else -cost", "return [c for c in cost] if isinstance(cost, list) else -cost", [A + "_fcn"], True),
    ("m53", "abstract.py", "cost = np.dot(cost, self._task.objective_weights) if", "cost = np.dot(cost, cost) if", [A + "_init_agent"], True),
    ("h61", "abstract.py", "cost = np.dot(cost, self._task.objective_weights) if", "cost = np.dot(self._task.objective_weights, cost) if", [A + "_init_agent"], False),
    ("m54", "models.py", "return [item for v in self.variables for item in (v.get() if v.has_children() else [v.get()])]", "return [item for v in self.variables[::-1] for item in (v.get() if v.has_children() else [v.get()])]", [P + "models.Task.get_variables"], True),
    ("m55", "models.py", "solution = [item for v in self.variables for item in (v.randomize() if v.has_children() else [v.randomize()])]", "solution = [item for v in self.variables[1:] for item in (v.randomize() if v.has_children() else [v.randomize()])]", [P + "models.Task.empty_solution"], True),
    ("m56", "models.py", 'kwargs["space_dimension"] = sum([v.size() for v in variables])', 'kwargs["space_dimension"] = len(variables)', [P + "models.Task.__init__"], True),
    ("m57", "models.py", "            lb.extend(lb_ if v.has_children() else [lb_])\n            ub.extend(ub_ if v.has_children() else [ub_])", "            lb.extend(lb_ if v.has_children() else [lb_])\n            ub.extend(lb_ if v.has_children() else [lb_])", [P + "models.Task.get_bounds"], True),
    ("m60", "models.py", "        return [v.randomize() for v in self._children]\n", "        return [v.randomize() for v in self._children][:-1]\n", [P + "models.ContinuousMultiVariable.randomize"], True),
    ("m61", "models.py", 'solution[v.name] = v.decode(temp if v.has_children() else temp[0])', 'solution[v.name] = v.decode(temp if len(temp) > 1 else temp[0])', [P + "models.Task.transform_solution"], True),
    ("m62", "models.py", "            solution[v.name] = v.decode(temp if v.has_children() else temp[0])\n            counter += v.size()", "            solution[v.name] = v.decode(temp if v.has_children() else temp[0])\n            counter += 1", [P + "models.Task.transform_solution"], True),
    ("m63", "models.py", "if not np.all(np.array(self.objective_weights) >= 0):", "if not np.all(np.array(self.objective_weights) > 0):", [P + "models.Task.validate_objective_weights"], True),
    ("m64", "models.py", "np.array([ub <= lb for lb, ub in zip(self.lower_bounds, self.upper_bounds)])", "np.array([ub < lb for lb, ub in zip(self.lower_bounds, self.upper_bounds)])", [P + "models.ContinuousMultiVariable.validate_bounds", P + "models.ContinuousMultiVariable.__init__"], True),
    ("m65", "models.py", "for i in range(self.n_vars)]", "for i in range(self.n_vars - 1)]", [P + "models.BinaryVariable.__init__"], True),
    ("m66", "models.py", "        return self.lower_bounds, self.upper_bounds\n", "        return self.upper_bounds, self.lower_bounds\n", [P + "models.ContinuousMultiVariable.get_bounds"], True),
    ("m67", "models.py", "        return [v.decode(value[idx]) for idx, v in enumerate(self._children)]\n", "        return [v.decode(value[0]) for idx, v in enumerate(self._children)]\n", [P + "models.ContinuousMultiVariable.decode"], True),
    ("m68", "models.py", "ub = (2 - np.finfo(float).eps) * np.ones(self.n_vars)", "ub = (2 + np.finfo(float).eps) * np.ones(self.n_vars)", [P + "models.BinaryVariable.get_bounds"], True),
    ("m69", "models.py", "        ub = (n_items - 1e-4) * np.ones(n_items)\n", "        ub = (n_items - 1e-4) * np.ones(n_items - 1)\n", [P + "models.PermutationVariable.get_bounds"], True),
    ("h62", "models.py", "            temp = x[counter:(counter + v.size())]\n", "            width = v.size()\n            temp = x[counter:counter + width]\n", [P + "models.Task.transform_solution"], False),
    ("h60", "helpers.py", "    pop_new = population.copy()\n    pop_new.sort(", "    sorted_population = population.copy()\n    pop_new = sorted_population\n    pop_new.sort(", [H + "sort_by_cost"], False),
]
RUNNER = r'''
import sys, json
sys.path.insert(0, %r)
from pyvc.engine import Engine
import pyvc.specfuncs, pyvc.library, contracts
from pyvc.solve import discharge
e = Engine()
for q in %r: e.verify(q)
from pyvc.solve import retry_unknown
res = discharge(e.obligations, 15000, procs=4, use_cvc5=False)
retry_unknown(e.obligations, res, 45000)
bad = sorted({ob.name for k, ob in e.obligations.items() if not ob.expect_sat and res[k]["status"] != "unsat"})
print(json.dumps({"bad": bad, "undecided": e.undecided, "n": len(e.obligations)}))
'''

def run(m):
    mid, f, old, new, funcs, expect = m
    d = tempfile.mkdtemp(prefix=f"mut_{mid}_")
    try:
        shutil.copytree("/repo/pyvolutionary", os.path.join(d, "pyvolutionary"), ignore=shutil.ignore_patterns("__pycache__"))
        p = os.path.join(d, "pyvolutionary", f)
        s = open(p).read()
        if old not in s:
            return mid, "PATCH-DOES-NOT-APPLY", []
        open(p, "w").write(s.replace(old, new, 1))
        env = dict(os.environ, PYVC_REPO=d)
        r = subprocess.run([os.path.join(V, ".venv/bin/python"), "-c", RUNNER % (V, funcs)], capture_output=True, text=True, env=env, timeout=3000)
        try:
            out = json.loads(r.stdout.strip().splitlines()[-1])
        except Exception:
            return mid, "CRASH " + r.stderr[-300:], []
        failed = bool(out["bad"]) or bool(out["undecided"])
        ok = failed == expect
        return mid, ("ok" if ok else "UNEXPECTED") + (" detected" if failed else " green"), out["bad"][:4] + [str(u)[:120] for u in out["undecided"][:2]]
    finally:
        shutil.rmtree(d, ignore_errors=True)

if __name__ == "__main__":
    sel = [m for m in MUTANTS if not sys.argv[1:] or m[0] in sys.argv[1:]]
    with ThreadPoolExecutor(4) as ex:
        for mid, verdict, bad in ex.map(run, sel):
            print(mid, verdict, bad)
