#!/usr/bin/env python3
"""Regenerate expectations.json (committed, read-only at check time) from the current tree:
the C12 exclusion list, the structurally-elitist list (C17) and the integer-coded (optimizer, encoding) pairs that fail today."""
import json, os, sys
V = os.path.dirname(os.path.dirname(os.path.abspath(__file__)))
sys.path.insert(0, "/repo"); sys.path.insert(0, V)
from pyvc.eff import Analyzer
from pyvc.elite import classify, classify_len
from pyvc import bnd
an = Analyzer(); an.run()
excluded = sorted(c for c, v in an.c12_readers.items() if v)
el = classify(an.src)
recs = []
for tier in ("quick", "thorough") if "--thorough" in sys.argv else ("quick",):
    recs += bnd.campaign(tier, 0)["records"]
nonmono = {r["case"]["opt"] for r in recs if r.get("non_monotone_at")}
if "--scan" in sys.argv:          # several campaign seeds: a class is listed as monotone only if it never regressed in any of them
    for sd in range(1, 8):
        nonmono |= {r["case"]["opt"] for r in bnd.campaign("quick", sd)["records"] if r.get("non_monotone_at")}
else:
    prev = json.load(open(os.path.join(V, "expectations.json"))) if os.path.exists(os.path.join(V, "expectations.json")) else {}
    nonmono |= set(prev.get("non_monotone_observed", []))
elitist = sorted(c for c, v in el.items() if v[0] and c not in nonmono)
dropped = sorted(c for c, v in el.items() if v[0] and c in nonmono)
pairs = {}
for r in recs:
    c = r["case"]
    if c.get("scenario") in ("single", "repro") and c["kind"] in bnd.INTCODED and not r.get("skip"):
        pairs.setdefault((c["opt"], c["kind"]), []).append((r.get("cycles_budget", 0), bool(r.get("exc"))))
def _full(v):
    top = max(b_ for b_, _ in v)
    return [e for b, e in v if b == top]


failing = sorted([list(k) for k, v in pairs.items() if all(_full(v))])
partial = sorted([list(k) for k, v in pairs.items() if any(_full(v)) and not all(_full(v))])
known_exc = sorted({(r["case"]["opt"], r["exc"]["type"]) for r in recs if r.get("exc") and r["case"]["kind"] in bnd.CONT
                    and not str(r["case"].get("scale", "")).startswith("small")})     # (below the documented scale: not C06's domain)
mono = sorted(c for c in el if c not in nonmono and c not in elitist)
lens = classify_len(an.src)
out = {"len_structural": sorted(c for c, v in lens.items() if v[0]), "C12_excluded": excluded, "elitist": elitist, "monotone_in_campaign_not_structural": mono, "non_monotone_observed": sorted(nonmono), "structurally_elitist_but_not_monotone_in_campaign": dropped,
       "C06_intcoded_failing_pairs": failing, "C06_intcoded_partial_pairs": partial, "C06_known_exceptions": [list(x) for x in known_exc]}
json.dump(out, open(os.path.join(V, "expectations.json"), "w"), indent=1)
print("C12 excluded", excluded); print("elitist", len(elitist), "dropped (non-monotone)", dropped); print("failing int-coded pairs", len(failing)); print("known exc", known_exc)
