#!/usr/bin/env python3
"""False-alarm test: for each directory with a behaviour-preserving patch.diff, apply it in a scratch worktree of /repo and
run every registered quick check against the patched tree.  A VIOLATION (exit 1) on such a tree is a false alarm of the
machinery; exit 2/3 is a machinery failure; DEGRADED lines are recorded (proof lost, verdict kept).
Usage: tools/refac_eval.py [--props C01,C02] dir..."""
import json, os, subprocess, sys, time
V = os.path.dirname(os.path.dirname(os.path.abspath(__file__)))
WT = f"/tmp/wt_refac_{os.getpid()}"


def sh(cmd, **kw):
    return subprocess.run(cmd, shell=True, capture_output=True, text=True, **kw)


def evaluate(d, props):
    out = {"refactor": d}
    try:
        out["what"] = json.load(open(os.path.join(d, "meta.json"))).get("what", "")[:160]
    except Exception:  # noqa
        pass
    sh(f"git -C /repo worktree remove --force {WT}; rm -rf {WT}; git -C /repo worktree add -q --detach {WT} HEAD")
    ap = sh(f"git -C {WT} apply {d}/patch.diff")
    if ap.returncode != 0:
        out["apply_err"] = ap.stderr[-300:]
        return out
    res = {}
    for p in props:
        t0 = time.time()
        c = sh(f"cd {V} && PYVC_REPO={WT} ./check {p}", timeout=3000)
        lines = [l[:260] for l in c.stdout.splitlines() if l.startswith(("VIOLATION", "DEGRADED", "UNDECIDED", "MACHINERY"))]
        if c.returncode != 0 or lines:
            res[p] = {"exit": c.returncode, "lines": lines[:5], "wall": round(time.time() - t0)}
    out["alarms"] = {p: r for p, r in res.items() if r["exit"] != 0}
    out["degraded"] = {p: r for p, r in res.items() if r["exit"] == 0}
    sh(f"git -C /repo worktree remove --force {WT}; rm -rf {WT}")
    return out


if __name__ == "__main__":
    props = ["C%02d" % i for i in range(1, 21)]
    args = sys.argv[1:]
    if args and args[0] == "--props":
        props = args[1].split(",")
        args = args[2:]
    for d in args:
        try:
            o = evaluate(d.rstrip("/"), props)
        except Exception as ex:  # noqa
            o = {"refactor": d, "error": f"{type(ex).__name__}: {ex}"}
        print(json.dumps(o), flush=True)
