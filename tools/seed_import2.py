#!/usr/bin/env python3
"""Merge evaluation results (tools/seed_eval.py JSON lines) and test-suite confirmations (tools/seed_tests.py JSON lines) into
/verif/seeded/<name>/ (patch.diff, demo.py, meta.json) and regenerate seeded/README.md from every seeded/*/meta.json.
Usage: tools/seed_import2.py --eval a.jsonl b.jsonl --tests t1.jsonl t2.jsonl"""
import json, os, shutil, sys
V = os.path.dirname(os.path.dirname(os.path.abspath(__file__)))


def rows(files):
    out = []
    for f in files:
        for l in open(f):
            l = l.strip()
            if l.startswith("{"):
                out.append(json.loads(l))
    return out


def name_of(path):
    return os.path.basename(path.rstrip("/")).replace("seed_", "")


args = sys.argv[1:]
ev = args[args.index("--eval") + 1: args.index("--tests")] if "--tests" in args else args[args.index("--eval") + 1:]
ts = args[args.index("--tests") + 1:] if "--tests" in args else []
tests = {name_of(r["seed"]): r for r in rows(ts)}
os.makedirs(os.path.join(V, "seeded"), exist_ok=True)
for r in rows(ev):
    if "error" in r or not r.get("applies"):
        print("skipped (does not apply / error):", r.get("seed"), r.get("error", r.get("apply_err", ""))[:100])
        continue
    name = name_of(r["seed"])
    d = os.path.join(V, "seeded", name)
    t = tests.get(name)
    old = json.load(open(os.path.join(d, "meta.json"))) if os.path.exists(os.path.join(d, "meta.json")) else None
    tests_pass = (t or {}).get("tests_pass", (old or {}).get("confirmed_by_me", {}).get("tests") is not None and
                  " passed" in str((old or {}).get("confirmed_by_me", {}).get("tests")))
    if not (r.get("demo_passes_without") and r.get("demo_fails_with_change") and tests_pass):
        print("NOT KEPT (not confirmed):", name, r.get("demo_passes_without"), r.get("demo_fails_with_change"), tests_pass)
        continue
    os.makedirs(d, exist_ok=True)
    for fn in ("patch.diff", "demo.py", "patch_original.diff"):
        src = os.path.join(r["seed"], fn)
        if os.path.exists(src) and os.path.abspath(src) != os.path.abspath(os.path.join(d, fn)):
            shutil.copy(src, os.path.join(d, fn))
    meta = old or json.load(open(os.path.join(r["seed"], "meta.json")))
    cb = meta.get("confirmed_by_me", {})
    cb.update({"demo_passes_without": r["demo_passes_without"], "demo_fails_with_change": r["demo_fails_with_change"],
               "ran": "tools/seed_eval.py + tools/seed_tests.py: scratch worktree of /repo HEAD, git apply patch.diff, PYTHONPATH=<worktree> "
                      "demo.py before/after, pytest -n 6 tests, PYVC_REPO=<worktree> ./check <property>"})
    if t:
        cb["tests"] = t.get("tests")
    meta["confirmed_by_me"] = cb
    meta["check_result"] = r.get("checks")
    meta["detected"] = r.get("detected")
    json.dump(meta, open(os.path.join(d, "meta.json"), "w"), indent=1)

table = []
for name in sorted(os.listdir(os.path.join(V, "seeded"))):
    mp = os.path.join(V, "seeded", name, "meta.json")
    if not os.path.exists(mp):
        continue
    m = json.load(open(mp))
    first = next((l for v in (m.get("check_result") or {}).values() for l in v.get("lines", []) if l.startswith("VIOLATION")), "")
    res = ("caught: " + first.split("replay=")[-1].split("/replays/")[-1][:110]) if m.get("detected") else "MISSED"
    table.append((name, str(m.get("property", name[:3]))[:3], res, str(m.get("what", ""))[:170]))
with open(os.path.join(V, "seeded", "README.md"), "w") as f:
    f.write("# Independently seeded changes and which check catches them\n\nWritten by sub-agents that saw only the text of one property and a "
            "scratch worktree (five rounds: `_1/_2`, `_3/_4` asked for changes outside the base class, `_5/_6` asked for changes that are hard "
            "to notice, `_7/_8` for numerical edges, aliasing, off-by-one, exception handling, data-model and stale-cache mechanisms, `_9` "
            "for changes that need a particular input, call sequence, mode or two cooperating edits to manifest; a `first_contact` entry in "
            "meta.json says what the machinery of that time reported before it was strengthened); confirmed by `tools/seed_eval.py` / `tools/seed_tests.py` (demo fails with / passes without the change, the 285 tests "
            "pass, the property's quick check run against the changed tree).\n\n| seed | property | result of `./check <property>` on the "
            "changed tree | change |\n|---|---|---|---|\n")
    for t_ in table:
        f.write("| " + " | ".join(x.replace("|", "/").replace("\n", " ") for x in t_) + " |\n")
print(len(table), "rows;", sum(1 for t_ in table if t_[2].startswith("caught")), "caught,", sum(1 for t_ in table if t_[2] == "MISSED"), "missed")
