/-
L2: prefix sums and segments of a concatenation (used as axioms `fsum` / `segf` by the VC generator, pyvc/exprs.py::fsum_axioms).
fsum K j = K 0 + .. + K (j-1); position i of the concatenation of n segments of lengths K 0 .. K (n-1) lies in exactly one segment.
The SMT axioms are stated over Int-indexed arrays whose first n entries are non-negative; here over ℕ → ℕ.
-/
import Mathlib
open Finset

def fsum (K : ℕ → ℕ) (j : ℕ) : ℕ := ∑ k ∈ range j, K k

theorem fsum_zero (K : ℕ → ℕ) : fsum K 0 = 0 := by simp [fsum]

theorem fsum_succ (K : ℕ → ℕ) (j : ℕ) : fsum K (j + 1) = fsum K j + K j := by
  simp [fsum, sum_range_succ]

theorem fsum_mono (K : ℕ → ℕ) {a b : ℕ} (h : a ≤ b) : fsum K a ≤ fsum K b := by
  unfold fsum
  exact sum_le_sum_of_subset (range_mono h)

theorem seg_exists (K : ℕ → ℕ) (n i : ℕ) (h : i < fsum K n) :
    ∃ s, s < n ∧ fsum K s ≤ i ∧ i < fsum K s + K s := by
  induction n with
  | zero => simp [fsum] at h
  | succ m ih =>
    by_cases hm : i < fsum K m
    · obtain ⟨s, hs, h1, h2⟩ := ih hm
      exact ⟨s, Nat.lt_succ_of_lt hs, h1, h2⟩
    · refine ⟨m, Nat.lt_succ_self m, Nat.le_of_not_lt hm, ?_⟩
      rw [fsum_succ] at h
      exact h

theorem seg_unique (K : ℕ → ℕ) {i s t : ℕ}
    (hs : fsum K s ≤ i ∧ i < fsum K s + K s) (ht : fsum K t ≤ i ∧ i < fsum K t + K t) : s = t := by
  rcases Nat.lt_trichotomy s t with h | h | h
  · exfalso
    have := fsum_mono K (Nat.succ_le_of_lt h)
    rw [fsum_succ] at this
    omega
  · exact h
  · exfalso
    have := fsum_mono K (Nat.succ_le_of_lt h)
    rw [fsum_succ] at this
    omega

theorem fsum_congr (K K' : ℕ → ℕ) (n : ℕ) (h : ∀ k < n, K k = K' k) : fsum K n = fsum K' n := by
  unfold fsum
  exact sum_congr rfl (fun k hk => h k (mem_range.mp hk))
