import Mathlib.Data.List.Sort

/-!
Lemma L1 (used as an axiom instance by pyvc for the `*_indexes` cost clause of C16):
two non-decreasing arrangements of the same finite multiset of keys coincide, hence the k-th key along
`np.argsort` (any sorting permutation) equals the k-th key along the stable sort, and the descending
arrangement is the reverse of the ascending one.
-/

theorem sorted_arrangements_coincide {α : Type*} [LinearOrder α] (l₁ l₂ : List α)
    (hp : l₁.Perm l₂) (h₁ : l₁.Pairwise (· ≤ ·)) (h₂ : l₂.Pairwise (· ≤ ·)) : l₁ = l₂ :=
  hp.eq_of_pairwise' h₁ h₂

theorem sorted_desc_is_reverse_of_asc {α : Type*} [LinearOrder α] (asc desc : List α)
    (hp : asc.Perm desc) (h₁ : asc.Pairwise (· ≤ ·)) (h₂ : desc.Pairwise (· ≥ ·)) : desc = asc.reverse := by
  have h₃ : asc.reverse.Pairwise (· ≥ ·) := by
    rw [List.pairwise_reverse]
    exact h₁
  have hp' : desc.Perm asc.reverse := hp.symm.trans (List.reverse_perm asc).symm
  exact hp'.eq_of_pairwise' h₂ h₃
